(* Executable model of the time-triggered <-> STN plan conversions (C26).  Definitions only.

   Mirrors
     unified_planning/plans/time_triggered_plan.py :
        _absolute_time                  [abs_time]
        _extract_action_timings         [action_timings]     (a Python set: a duplicate-free list, order irrelevant
                                                              because the events are sorted by time afterwards and the
                                                              timings of one action are pairwise different)
        _extract_instantenous_actions   [step_events]        (one event per timing; `if absolute_timing < 0: continue`)
        _convert_to_stn                 [all_events] (the dict `events` in insertion order), [sort_events]
                                        (`sorted(events.items())` + flattening = stable sort by time),
                                        [base_constraints] (instantaneous: 0 <= start; durative: [d, d] to its end),
                                        [edge_constraint] (simultaneous events => equality, otherwise lower bound
                                        skew_cur - skew_next + epsilon), [conv_constraints] (the dict `stn_constraints`)
     unified_planning/plans/stn_plan.py :
        flatten_dict_structure          [flatten]
        STNPlan.__init__                [init_adds]          (the sequence of DeltaSTN.add calls)
        STNPlan.is_consistent           [Stn.check_stn]
        STNPlan.get_constraints         [plan_constraints]
        STNPlan._convert_to_time_triggered   [to_tt]

   What the model does NOT compute: the partial-order plan obtained by deordering the sequentialised events
   (`seq_plan.convert_to(PARTIAL_ORDER_PLAN, problem)`, property C27).  Its adjacency list is an INPUT of the model:
   a list of pairs (i, j) of positions in the sorted event list, in the iteration order of `get_adjacency_list`.
   The theorems hold for EVERY edge list whose pairs point forward in the sorted event list.

   Nodes of the STN plan are numbers: 0 = GLOBAL_START, 1 = GLOBAL_END, 2+2k = START of plan step k,
   3+2k = END of plan step k.  Generators of events are numbers: 0 = the mockup action that carries the problem's
   timed effects and timed goals (start 0, duration -1), k+1 = plan step k.
   Times are exact rationals, compared up to Qeq (as in Model/Stn.v). *)
From Coq Require Import List ZArith NArith QArith Qabs Bool.
Import ListNotations.
Require Import UPV.Model.Stn.

(* ------------------------------------------------------------------ timings of an action *)
Inductive anchor := FromStart | FromEnd.
Record timing := { tg_anchor : anchor; tg_delay : Q }.
Record interval := { iv_lo : timing; iv_hi : timing; iv_lopen : bool; iv_ropen : bool }.

(* one element of chain([mockup], plan.timed_actions), reduced to what _convert_to_stn reads:
   start, duration (None = instantaneous), the keys of action.effects and action.simulated_effects, the keys of
   action.conditions, and whether the duration has a non-constant bound (then the start is a timing too, since
   fix dc706f7) *)
Record step := { st_start : Q; st_dur : option Q; st_effs : list timing; st_conds : list interval;
                 st_dyn : bool   (* a bound of action.duration is not a constant: _get_duration_conditions is not empty *) }.

(* the mockup durative action: timed effects become effects, timed goals conditions; start 0, duration -1 *)
Definition mock_step (effs : list timing) (conds : list interval) : step :=
  {| st_start := 0; st_dur := Some (-(1)); st_effs := effs; st_conds := conds; st_dyn := false |}.

(* _absolute_time *)
Definition abs_time (start dur : Q) (tm : timing) : Q :=
  match tg_anchor tm with
  | FromStart => start + tg_delay tm
  | FromEnd => start + dur + tg_delay tm
  end.

(* a Python set of Fractions *)
Fixpoint qmem (x : Q) (l : list Q) : bool :=
  match l with [] => false | y :: r => Qeq_bool x y || qmem x r end.
Fixpoint qnodup (l : list Q) : list Q :=
  match l with [] => [] | x :: r => if qmem x r then qnodup r else x :: qnodup r end.

(* _extract_action_timings(action, start, duration, epsilon) *)
Definition action_timings (eps : Q) (st : step) (dur : Q) : list Q :=
  let s := st_start st in
  qnodup (map (abs_time s dur) (st_effs st) ++ (if st_dyn st then [s] else []) ++
          flat_map (fun iv => [abs_time s dur (iv_lo iv) + (if iv_lopen iv then eps else 0);
                               abs_time s dur (iv_hi iv) + (if iv_ropen iv then - eps else 0)]) (st_conds st)).

(* ------------------------------------------------------------------ events *)
Record event := { e_time : Q; e_gen : nat; e_skew : Q }.    (* event_creating_ais[event] = (generator, skew) *)

Definition step_events (eps : Q) (g : nat) (st : step) : list event :=
  match st_dur st with
  | None => [ {| e_time := st_start st; e_gen := g; e_skew := 0 |} ]
  | Some d =>
      map (fun t => {| e_time := t; e_gen := g; e_skew := t - st_start st |})
          (filter (fun t => negb (Qlt_bool t 0)) (action_timings eps st d))
  end.

Fixpoint events_from (eps : Q) (g : nat) (chain : list step) : list event :=
  match chain with
  | [] => []
  | st :: r => step_events eps g st ++ events_from eps (S g) r
  end.
Definition all_events (eps : Q) (chain : list step) : list event := events_from eps 0 chain.

(* sorted(events.items(), key=time) then flattened: a stable sort by time of the insertion order *)
Fixpoint insert_ev (e : event) (l : list event) : list event :=
  match l with
  | [] => [e]
  | x :: r => if Qlt_bool (e_time e) (e_time x) then e :: l else x :: insert_ev e r
  end.
Definition sort_events (l : list event) : list event := fold_left (fun acc e => insert_ev e acc) l [].

(* ------------------------------------------------------------------ the constraints of the STN plan *)
Definition oq := option Q.
Definition pcon := (N * oq * oq * N)%type.      (* (a, L, U, b) :  L <= time b - time a <= U  (insert_interval(a, b, L, U)) *)
Definition cdict := list (N * list (oq * oq * N)).         (* the dict `stn_constraints` in insertion order *)

Definition start_plan : N := 0%N.
Definition end_plan : N := 1%N.
Definition start_node (g : nat) : N :=
  match g with O => start_plan | S k => (2 + 2 * N.of_nat k)%N end.
Definition end_node (g : nat) : N :=
  match g with O => end_plan | S k => (3 + 2 * N.of_nat k)%N end.

(* stn_constraints.setdefault(k, []).append(v) *)
Fixpoint dict_append (k : N) (v : oq * oq * N) (m : cdict) : cdict :=
  match m with
  | [] => [(k, [v])]
  | (k', l) :: m' => if (k =? k')%N then (k', l ++ [v]) :: m' else (k', l) :: dict_append k v m'
  end.

(* the loop over chain([mockup], timed_actions): what it stores in stn_constraints *)
Fixpoint base_constraints (g : nat) (chain : list step) (m : cdict) : cdict :=
  match chain with
  | [] => m
  | st :: r =>
      let m' :=
        match st_dur st with
        | None => dict_append start_plan (Some 0, None, start_node g) m
        | Some d =>
            match g with
            | O => m                                                   (* ai == mockup_action_instance *)
            | S _ => dict_append (start_node g) (Some d, Some d, end_node g) m
            end
        end in
      base_constraints (S g) r m'
  end.

(* the body of the double loop over the adjacency list of the partial-order plan *)
Definition edge_constraint (eps : Q) (cur next : event) : option (N * (oq * oq * N)) :=
  if Nat.eqb (e_gen cur) (e_gen next) then None
  else
    let d := e_skew cur - e_skew next in
    if Qeq_bool (e_time cur) (e_time next)                 (* ai_next in current_simultaneous_events *)
    then Some (start_node (e_gen cur), (Some d, Some d, start_node (e_gen next)))
    else Some (start_node (e_gen cur), (Some (d + eps), None, start_node (e_gen next))).

Fixpoint add_edges (eps : Q) (evs : list event) (edges : list (nat * nat)) (m : cdict) : cdict :=
  match edges with
  | [] => m
  | (i, j) :: r =>
      add_edges eps evs r
        match nth_error evs i, nth_error evs j with
        | Some a, Some b =>
            match edge_constraint eps a b with Some (k, v) => dict_append k v m | None => m end
        | _, _ => m
        end
  end.

(* the sorted events of chain([mockup], plan) *)
Definition plan_events (eps : Q) (mock : step) (plan : list step) : list event :=
  sort_events (all_events eps (mock :: plan)).

(* the dict handed to STNPlan(constraints=...) *)
Definition conv_constraints (eps : Q) (mock : step) (plan : list step) (edges : list (nat * nat)) : cdict :=
  add_edges eps (plan_events eps mock plan) edges (base_constraints 0 (mock :: plan) []).

(* flatten_dict_structure *)
Definition flatten (m : cdict) : list pcon :=
  flat_map (fun kv => match snd kv with
                      | [] => [(fst kv, None, None, fst kv)]
                      | l => map (fun v => (fst kv, fst (fst v), snd (fst v), snd v)) l
                      end) m.

(* ------------------------------------------------------------------ STNPlan.__init__: the DeltaSTN.add calls *)
(* insert_interval(a, b, left_bound=L, right_bound=U): add(a, b, -L); add(b, a, U).
   (with both bounds None the implementation only registers the two events; _convert_to_stn never produces that) *)
Definition interval_adds (a b : N) (lb ub : oq) : list cstr :=
  (match lb with Some l => [(a, b, - l)] | None => [] end) ++
  (match ub with Some u => [(b, a, u)] | None => [] end).

Definition node_adds (n : N) : list cstr :=
  (if (n =? start_plan)%N then [] else [(start_plan, n, - 0)]) ++
  (if (n =? end_plan)%N then [] else [(n, end_plan, - 0)]).

Definition pcon_adds (c : pcon) : list cstr :=
  match c with (a, lb, ub, b) => node_adds a ++ node_adds b ++ interval_adds a b lb ub end.

Definition init_adds (cs : list pcon) : list cstr :=
  (start_plan, end_plan, - 0) :: flat_map pcon_adds cs.

(* STNPlan(constraints): None = the model of _inc_check ran out of fuel *)
Definition stn_plan_init (fuel : nat) (cs : list pcon) : option stn :=
  run_adds fuel (empty_stn 0) (init_adds cs).

Definition convert_to_stn (fuel : nat) (eps : Q) (mock : step) (plan : list step) (edges : list (nat * nat)) : option stn :=
  stn_plan_init fuel (flatten (conv_constraints eps mock plan edges)).

(* ------------------------------------------------------------------ STNPlan.get_constraints *)
Definition bdict := list ((N * N) * Q).                    (* upper_bounds / lower_bounds *)
Definition key_eqb (a b : N * N) : bool := (fst a =? fst b)%N && (snd a =? snd b)%N.
Fixpoint bfind (k : N * N) (m : bdict) : option Q :=
  match m with [] => None | (k', v) :: m' => if key_eqb k k' then Some v else bfind k m' end.
(* m[k] = f(m.get(k, v)) *)
Fixpoint bupdate (f : Q -> Q) (k : N * N) (v : Q) (m : bdict) : bdict :=
  match m with
  | [] => [(k, f v)]
  | (k', w) :: m' => if key_eqb k k' then (k', f w) :: m' else (k', w) :: bupdate f k v m'
  end.
Definition qmin (a b : Q) : Q := if Qle_bool a b then a else b.     (* python min(a, b) *)
Definition qmax (a b : Q) : Q := if Qlt_bool a b then b else a.     (* python max(a, b) *)

(* one (upper_bound, a_node) of _stn.get_constraints()[b_node] *)
Definition bounds_step (b_node : N) (st : bdict * bdict) (x : Q * N) : bdict * bdict :=
  let '(ub, a_node) := x in
  if Qlt_bool 0 ub
  then (bupdate (qmin ub) (a_node, b_node) ub (fst st), snd st)
  else (fst st, bupdate (qmax (- ub)) (b_node, a_node) (- ub) (snd st)).

Definition bounds_of (g : list (N * list (Q * N))) : bdict * bdict :=
  fold_left (fun st kv => fold_left (bounds_step (fst kv)) (snd kv) st) g ([], []).

Definition plan_constraints_of (ul : bdict * bdict) : cdict :=
  let '(upper, lower) := ul in
  let m1 := fold_left (fun m kv => dict_append (fst (fst kv)) (bfind (fst kv) lower, Some (snd kv), snd (fst kv)) m) upper [] in
  fold_left (fun m kv => match bfind (fst kv) upper with
                         | Some _ => m
                         | None => dict_append (fst (fst kv)) (Some (snd kv), None, snd (fst kv)) m
                         end) lower m1.

Definition plan_constraints (s : stn) : cdict := plan_constraints_of (bounds_of (get_constraints s)).

(* ------------------------------------------------------------------ STNPlan._convert_to_time_triggered *)
Definition amap := list (N * (oq * oq)).                   (* action_instance_map, keyed by the plan step *)
Fixpoint amap_get (k : N) (m : amap) : oq * oq :=
  match m with [] => (None, None) | (k', v) :: m' => if (k =? k')%N then v else amap_get k m' end.
Fixpoint amap_set (k : N) (v : oq * oq) (m : amap) : amap :=
  match m with
  | [] => [(k, v)]
  | (k', w) :: m' => if (k =? k')%N then (k', v) :: m' else (k', w) :: amap_set k v m'
  end.

Definition tt_collect (m : amap) (nd : N * Q) : amap :=
  let '(node, d) := nd in
  if (node <? 2)%N then m
  else
    let time := - d in
    let k := ((node - 2) / 2)%N in
    let '(s, e) := amap_get k m in
    if N.even node then amap_set k (Some time, e) m else amap_set k (s, Some time) m.

Definition ttstep := (Q * N * oq)%type.                    (* (start, plan step, duration) *)
Fixpoint insert_tt (x : ttstep) (l : list ttstep) : list ttstep :=
  match l with
  | [] => [x]
  | y :: r => if Qlt_bool (fst (fst x)) (fst (fst y)) then x :: l else y :: insert_tt x r
  end.

(* steps whose START node is missing cannot occur (the implementation asserts it); the model drops them *)
Definition to_tt (s : stn) : list ttstep :=
  let m := fold_left tt_collect (distances s) [] in
  fold_left (fun acc kv =>
               match fst (snd kv) with
               | Some st => insert_tt (st, fst kv, match snd (snd kv) with Some e => Some (e - st) | None => None end) acc
               | None => acc
               end) m [].

(* ------------------------------------------------------------------ specification vocabulary *)
(* a time assignment satisfies a constraint of the STN plan *)
Definition sat_pcon (t : N -> Q) (c : pcon) : Prop :=
  match c with (a, lb, ub, b) =>
    (match lb with Some l => l <= t b - t a | None => True end) /\
    (match ub with Some u => t b - t a <= u | None => True end)
  end.
Definition sat_pconb (t : N -> Q) (c : pcon) : bool :=
  match c with (a, lb, ub, b) =>
    (match lb with Some l => Qle_bool l (t b - t a) | None => true end) &&
    (match ub with Some u => Qle_bool (t b - t a) u | None => true end)
  end.

(* the times of the ORIGINAL time-triggered plan: GLOBAL_START at 0, GLOBAL_END at the makespan, START/END of step k
   at its start / start + duration *)
Definition step_end (st : step) : Q := match st_dur st with Some d => st_start st + d | None => st_start st end.
Fixpoint makespan (plan : list step) : Q :=
  match plan with [] => 0 | st :: r => qmax (qmax (st_start st) (step_end st)) (makespan r) end.
Definition orig_time (plan : list step) (n : N) : Q :=
  if (n =? start_plan)%N then 0
  else if (n =? end_plan)%N then makespan plan
  else match nth_error plan (N.to_nat ((n - 2) / 2)) with
       | Some st => if N.even n then st_start st else step_end st
       | None => 0
       end.

(* hypotheses of the conversion theorem, all decidable *)
Fixpoint sorted_by_time (l : list event) : bool :=
  match l with
  | a :: ((b :: _) as r) => Qle_bool (e_time a) (e_time b) && sorted_by_time r
  | _ => true
  end.
(* epsilon is at most the gap between two consecutive different event times *)
Fixpoint gap_ok (eps : Q) (l : list event) : bool :=
  match l with
  | a :: ((b :: _) as r) => (Qeq_bool (e_time a) (e_time b) || Qle_bool (e_time a + eps) (e_time b)) && gap_ok eps r
  | _ => true
  end.
Definition edges_forward (n : nat) (edges : list (nat * nat)) : bool :=
  forallb (fun e => Nat.ltb (fst e) (snd e) && Nat.ltb (snd e) n) edges.
(* start times and durations of the plan are not negative *)
Definition times_nonneg (plan : list step) : bool :=
  forallb (fun st => Qle_bool 0 (st_start st) && match st_dur st with Some d => Qle_bool 0 d | None => true end) plan.

(* ------------------------------------------------------------------ the epsilon used by _convert_to_stn *)
(* a sorted Python set of Fractions *)
Fixpoint qinsert (x : Q) (l : list Q) : list Q :=
  match l with
  | [] => [x]
  | y :: r => if Qlt_bool x y then x :: l else if Qeq_bool x y then l else y :: qinsert x r
  end.
Definition qsorted_set (l : list Q) : list Q := fold_right qinsert [] l.

(* the delays extract_epsilon reads from problem.timed_goals / problem.timed_effects (whatever their anchor) *)
Definition mock_delays (mock : step) : list Q :=
  flat_map (fun iv => [tg_delay (iv_lo iv); tg_delay (iv_hi iv)]) (st_conds mock) ++ map tg_delay (st_effs mock).

Definition step_times (st : step) : list Q :=
  st_start st :: match st_dur st with
                 | None => []
                 | Some d => (st_start st + d) :: action_timings 0 st d
                 end.

Fixpoint min_gap (prev eps : Q) (l : list Q) : Q :=
  match l with [] => eps | x :: r => min_gap x (qmin eps (x - prev)) r end.

(* TimeTriggeredPlan.extract_epsilon(problem) *)
Definition extract_epsilon (mock : step) (plan : list step) : option Q :=
  match qsorted_set (0 :: mock_delays mock ++ flat_map step_times plan) with
  | [] => None
  | x :: r => let e := last r x in if Qeq_bool e 0 then None else Some (min_gap x e r)
  end.

(* problem.epsilon, else min(extract_epsilon / 10, 1/1000), else 1/1000 *)
Definition choose_eps (problem_eps plan_eps : option Q) : Q :=
  match problem_eps with
  | Some e => e
  | None => match plan_eps with Some e => qmin (e / 10) (1 # 1000) | None => 1 # 1000 end
  end.

(* the plan with the start times chosen by the back conversion (durations are fixed by the [d, d] constraints) *)
Fixpoint retime_from (s : stn) (k : nat) (plan : list step) : list step :=
  match plan with
  | [] => []
  | st :: r => {| st_start := model_of s (start_node (S k)); st_dur := st_dur st; st_effs := st_effs st; st_conds := st_conds st;
                  st_dyn := st_dyn st |}
               :: retime_from s (S k) r
  end.
Definition retime (s : stn) (plan : list step) : list step := retime_from s 0 plan.

(* the timings of the mockup action anchored at GLOBAL_END have a delay <= 0 (its end is at -1: they give negative
   times, which _convert_to_stn skips) *)
Definition base_timings (st : step) : list timing :=
  st_effs st ++ flat_map (fun iv => [iv_lo iv; iv_hi iv]) (st_conds st).
Definition from_start (tm : timing) : bool := match tg_anchor tm with FromStart => true | FromEnd => false end.
Definition mock_end_ok (mock : step) : bool :=
  forallb (fun tm => from_start tm || Qle_bool (tg_delay tm) 0) (base_timings mock).
