(* Grounding of one action instance, as the sequential simulator does it — DEFINITIONS ONLY
   (proofs: Proofs/Ground_proofs.v and Proofs/Ground_subst.v, statements: Props/C01.v, correspondence: Corr/Corr_C01g.v).

   UPSequentialSimulator._ground_action calls GrounderHelper(problem, prune_actions=False).ground_action, which calls
   unified_planning/engines/compilers/utils.py: create_action_with_given_subs(problem, action, env.simplifier, subs)
   with subs = dict(zip(action.parameters, parameters)).  With prune_actions=False the grounder's simplifier is
   `env.simplifier` = Simplifier(env) WITHOUT a problem (grounder.py: GrounderHelper.__init__): no static fluent is
   folded ([stat] is empty) and no type is known to be object-less ([empty_ty] is false).

   Mirrored here, for instantaneous actions without simulated effect:
     create_action_with_given_subs        ground_action   (effects first, then the preconditions; None = no grounding)
     create_effect_with_given_subs        ground_effect   (substitute; simplify target arguments, value, condition;
                                                           an effect whose condition simplified to false is dropped)
     Effect.__init__ (effect.py)          keep_vars       (forall variables that are not free in the rebuilt effect
                                                           are dropped, duplicates removed)
     _add_effect_instance +
     effect.py check_conflicting_effects  syn_check       (the SYNTACTIC conflict test on the rebuilt effects;
                                                           a conflict makes the grounding None)
     check_and_simplify_preconditions     ground_pre      (And of the substituted preconditions, simplified:
                                                           false -> None, true -> [], And -> its arguments, else [ps])
     FNode.substitute({parameter: constant})  psubst      (see the note at psubst)
     Simplifier.simplify                  gsimp           (= Walkers/Simplify.v's [simp] with the fuel [simplify] uses;
                                                           [ground_fuel_ok] says the nesting bound was never hit)
   The grounded action has no parameters; the simulator then runs the SAME algorithm as before on it, so
     sim_apply_grounded sc T P s a args = sim_apply sc P s g []   for the grounded action g.

   Type information.  Simplifier.walk_equals and walk_exists read the user types of objects and the type hierarchy;
   [problem] (Planning/Problem.v) only has the object list of every type, from which neither can be recovered.  They
   are therefore an explicit table [tytab] (object -> its type, type -> ancestors), serialised by the harness from the
   real problem.  Fluent result types come from the fluent declarations; after the substitution no parameter is left;
   interpreted functions returning a user type are not modelled ([if_ty] is empty). *)
From Coq Require Import List ZArith NArith QArith Qcanon Bool.
Import ListNotations.
Require Import UPV.Core.Expr UPV.Core.Eval UPV.Core.Interp UPV.Planning.Problem UPV.Planning.Sem UPV.Walkers.Simplify.

Record tytab := {
  tt_obj : list (N * N);            (* object -> its (most specific) user type *)
  tt_anc : list (N * list N)        (* user type -> its ancestors *)
}.

(* the value of a constant node *)
Definition const_value (e : expr) : option value :=
  match e with
  | EBool b => Some (VBool b) | EInt z => Some (VNum (zq z)) | EReal q => Some (VNum q) | EObj o => Some (VObj o)
  | _ => None
  end.
Fixpoint const_values (l : list expr) : option (list value) :=
  match l with
  | [] => Some []
  | x :: r => match const_value x, const_values r with Some v, Some vs => Some (v :: vs) | _, _ => None end
  end.

Definition fluent_user_type (P : problem) (f : N) : option N :=
  match find (fun fd => (fd_id fd =? f)%N) (p_fluents P) with
  | Some fd => match fd_ty fd with FObj t => Some t | _ => None end
  | None => None
  end.

(* the configuration of env.simplifier as the grounder uses it *)
Definition gcfg (T : tytab) (P : problem) : cfg :=
  {| obj_ty := fun o => lookupN o (tt_obj T);
     par_ty := fun _ => None;
     fl_ty := fluent_user_type P;
     if_ty := fun _ => None;
     anc := fun t => match lookupN t (tt_anc T) with Some l => l | None => [] end;
     empty_ty := fun _ => false;
     stat := fun _ _ => None;
     itab := fun f args =>
               match const_values args with
               | Some vs => option_map value_expr (lookup_app f vs (p_ifun P))
               | None => None
               end |}.

(* FNode.substitute(subs) for subs = {parameter: constant}.  The Substituter (Walkers/Subst.v, C13) rebuilds every node
   through the ExpressionManager; on expressions the manager can build (no Not under Not, n-ary operators with >= 2
   arguments: Subst.nf) replacing parameters by constants never triggers one of its normalisations, and no key is
   dropped below a quantifier (a parameter has no free variable), so the result is the plain homomorphic replacement
   (Proofs/Ground_subst.v: psubst_is_substitute; Props/C01.v: C01_grounded_substitution_is_substituter). *)
Fixpoint psubst (sg : list (N * value)) (e : expr) {struct e} : expr :=
  match e with
  | EBool _ | EInt _ | EReal _ | EObj _ | EVar _ _ => e
  | EParam p => match lookupN p sg with Some v => value_expr v | None => e end
  | EFluent f l => EFluent f (map (psubst sg) l)
  | EIFun f l => EIFun f (map (psubst sg) l)
  | EAnd l => EAnd (map (psubst sg) l)
  | EOr l => EOr (map (psubst sg) l)
  | ENot a => ENot (psubst sg a)
  | EImplies a b => EImplies (psubst sg a) (psubst sg b)
  | EIff a b => EIff (psubst sg a) (psubst sg b)
  | EExists vs a => EExists vs (psubst sg a)
  | EForall vs a => EForall vs (psubst sg a)
  | EPlus l => EPlus (map (psubst sg) l)
  | EMinus a b => EMinus (psubst sg a) (psubst sg b)
  | ETimes l => ETimes (map (psubst sg) l)
  | EDiv a b => EDiv (psubst sg a) (psubst sg b)
  | ELe a b => ELe (psubst sg a) (psubst sg b)
  | ELt a b => ELt (psubst sg a) (psubst sg b)
  | EEquals a b => EEquals (psubst sg a) (psubst sg b)
  | EAlways a => EAlways (psubst sg a)
  | ESometime a => ESometime (psubst sg a)
  | ESometimeBefore a b => ESometimeBefore (psubst sg a) (psubst sg b)
  | ESometimeAfter a b => ESometimeAfter (psubst sg a) (psubst sg b)
  | EAtMostOnce a => EAtMostOnce (psubst sg a)
  end.

(* simplifier.simplify(e) *)
Definition gsimp (G : cfg) (e : expr) : expr := simp G (size e) e.
Definition gsimp_ok (G : cfg) (e : expr) : bool := simp_ok G (size e) e.

(* ------------------------------------------------------------------ preconditions *)
Definition ground_pre (G : cfg) (sg : list (N * value)) (pre : list expr) : option (list expr) :=
  match pre with
  | [] => Some []                                   (* len(ap) == 0 *)
  | _ =>
      match gsimp G (mkAnd (map (psubst sg) pre)) with
      | EBool false => None                         (* a contradiction: the action is not created *)
      | EBool true => Some []
      | EAnd l => Some l
      | ps => Some [ps]
      end
  end.

(* ------------------------------------------------------------------ effects *)
(* Effect.__init__: self._forall = the given variables that are free in fluent / value / condition, each once *)
Fixpoint keep_vars (fv : list N) (seen : list N) (vs : list (N * N)) : list (N * N) :=
  match vs with
  | [] => []
  | p :: r => if memN (fst p) fv && negb (memN (fst p) seen)
              then p :: keep_vars fv (fst p :: seen) r
              else keep_vars fv seen r
  end.

Definition effect_free_vars (args : list expr) (v c : expr) : list N :=
  flat_map free_vars args ++ free_vars v ++ free_vars c.

(* create_effect_with_given_subs; None = the effect is dropped *)
Definition ground_effect (G : cfg) (sg : list (N * value)) (e : effect) : option effect :=
  let args := map (fun x => gsimp G (psubst sg x)) (e_args e) in
  let v := gsimp G (psubst sg (e_val e)) in
  let c := gsimp G (psubst sg (e_cond e)) in
  if is_false c then None
  else Some {| e_fl := e_fl e; e_args := args; e_val := v; e_cond := c; e_kind := e_kind e;
               e_vars := keep_vars (effect_free_vars args v c) [] (e_vars e); e_isbool := e_isbool e |}.

(* check_conflicting_effects (simulated_effect = None, timing = None).  [fa] = fluents_assigned (target expression ->
   value expression), [fid] = fluents_inc_dec.  Keys are FNodes: equality is structural equality of the expression. *)
Definition tkey (e : effect) : expr := EFluent (e_fl e) (e_args e).

Fixpoint assoc_e (k : expr) (d : list (expr * expr)) : option expr :=
  match d with
  | [] => None
  | (k', v) :: d' => if expr_eqb k k' then Some v else assoc_e k d'
  end.

(* not (a != b and not (a.is_constant() and b.is_constant() and a.constant_value() == b.constant_value())) *)
Definition same_value (a b : expr) : bool := expr_eqb a b || (is_const a && is_const b && const_eqb a b).

Definition cstate := (list (expr * expr) * list expr)%type.

Definition syn_check (e : effect) (st : cstate) : option cstate :=
  let '(fa, fid) := st in
  if is_true (e_cond e) && negb (e_isbool e)          (* not is_conditional() and not fluent.type.is_bool_type() *)
  then match e_kind e with
       | KAssign =>
           if mem_expr (tkey e) fid then None
           else match assoc_e (tkey e) fa with
                | Some v0 => if same_value v0 (e_val e) then Some (fa, fid) else None
                | None => Some (fa ++ [(tkey e, e_val e)], fid)
                end
       | KInc | KDec =>
           match assoc_e (tkey e) fa with
           | Some _ => None
           | None => Some (fa, if mem_expr (tkey e) fid then fid else fid ++ [tkey e])
           end
       end
  else Some st.

(* the loop `for e in old_effects` of create_action_with_given_subs; None = UPConflictingEffectsException caught *)
Fixpoint ground_effects (G : cfg) (sg : list (N * value)) (effs : list effect) (st : cstate) : option (list effect) :=
  match effs with
  | [] => Some []
  | e :: r =>
      match ground_effect G sg e with
      | None => ground_effects G sg r st
      | Some ge =>
          match syn_check ge st with
          | None => None
          | Some st' => match ground_effects G sg r st' with Some l => Some (ge :: l) | None => None end
          end
      end
  end.

(* ------------------------------------------------------------------ the action *)
Definition ground_action (T : tytab) (P : problem) (a : action) (args : list value) : option action :=
  let G := gcfg T P in
  let sg := zip_params (a_params a) args in
  match ground_effects G sg (a_effs a) ([], []) with
  | None => None
  | Some effs =>
      match ground_pre G sg (a_pre a) with
      | None => None
      | Some pre => Some {| a_params := []; a_pre := pre; a_effs := effs |}
      end
  end.

(* UPSequentialSimulator._apply on the grounded action *)
Definition sim_apply_grounded (sc : bool) (T : tytab) (P : problem) (s : state) (a : action) (args : list value)
  : option state :=
  match ground_action T P a args with
  | None => None                                    (* UPInvalidActionError, caught by _apply *)
  | Some g => sim_apply sc P s g []
  end.

Definition sim_is_applicable_grounded (sc : bool) (T : tytab) (P : problem) (s : state) (a : action) (args : list value)
  : bool :=
  match ground_action T P a args with
  | None => false
  | Some g => sim_is_applicable sc P s g []
  end.

(* ------------------------------------------------------------------ observers used by theorems and correspondence *)
(* the syntactic conflict check rejected the grounding *)
Definition ground_conflict (T : tytab) (P : problem) (a : action) (args : list value) : bool :=
  match ground_effects (gcfg T P) (zip_params (a_params a) args) (a_effs a) ([], []) with
  | None => true | Some _ => false end.

(* some effect that survives grounding lost a forall variable *)
Definition vars_dropped (T : tytab) (P : problem) (a : action) (args : list value) : bool :=
  existsb (fun e => match ground_effect (gcfg T P) (zip_params (a_params a) args) e with
                    | Some ge => negb (vars_eqb (e_vars ge) (e_vars e))
                    | None => false
                    end) (a_effs a).

(* every call of the simplifier stayed within the nesting bound of [simplify] (never observed to fail) *)
Definition ground_fuel_ok (T : tytab) (P : problem) (a : action) (args : list value) : bool :=
  let G := gcfg T P in
  let sg := zip_params (a_params a) args in
  match a_pre a with [] => true | pre => gsimp_ok G (mkAnd (map (psubst sg) pre)) end &&
  forallb (fun e => forallb (fun x => gsimp_ok G (psubst sg x)) (e_cond e :: e_val e :: e_args e)) (a_effs a).

(* some divisor simplifies to the constant 0: Simplifier.walk_div raises and grounding raises with it (not modelled
   further; the harness reports such a case separately) *)
Definition ground_raises (T : tytab) (P : problem) (a : action) (args : list value) : bool :=
  let G := gcfg T P in
  let sg := zip_params (a_params a) args in
  let r := fun x => let y := psubst sg x in raises G false (size y) y in
  existsb r (a_pre a) || existsb (fun e => existsb r (e_cond e :: e_val e :: e_args e)) (a_effs a).
