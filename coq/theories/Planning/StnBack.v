(* The BACK conversion of C26: STN plan -> time-triggered plan.  Definitions only.

   Mirrors unified_planning/plans/stn_plan.py AS IT IS:
     STNPlan.__init__                     [init_ops], [run_iops], [back_init]
        the exact sequence of DeltaSTN calls, INCLUDING `insert_interval(a, b)` with both bounds None, which does
        not call `add` but registers both events in `_distances` (even when the network is already inconsistent,
        where `add` itself does nothing).  Planning/StnPlan.v [init_adds] keeps only the `add` calls; the two agree
        whenever the resulting network is consistent (Proofs/StnBack_proofs.v: back_init_sat_eq).
     STNPlan._convert_to_time_triggered   [back_map] (the dict action_instance_map), [back_convert]
        `for node, time in map(lambda x: (x[0], -x[1]), self._stn.distances.items())`: the time of a node is MINUS its
        DeltaSTN distance (DeltaSTN epsilon = 0: STNPlan constructs it with the class default); `assert time >= 0`;
        global nodes skipped; START/END of an action instance stored in action_instance_map[ai] = (start, end);
        then `sorted(action_instance_map.items(), key=start)` (stable, in insertion order of the dict) and
        duration = None if end is None else end - start.  The function does NOT look at `is_consistent()`.
        Exceptions: AssertionError when `time >= 0` fails or when the only entry has no start; TypeError from
        `sorted` when an entry without start is compared (None < Fraction).  All are [BackError].
        (`assert start is None` / `assert end is None` cannot fail: `_distances` is a dict, every node occurs once.)
   Reused from Planning/StnPlan.v (already compared with the real code by Corr_C26): [tt_collect], [to_tt], [amap_*].

   Nodes are numbered as in StnPlan.v: 0 = GLOBAL_START, 1 = GLOBAL_END, 2+2k = START of action instance k,
   3+2k = END of action instance k.  (In Python a node is the dataclass STNPlanNode(kind, action_instance), compared
   by kind and by the IDENTITY of the ActionInstance object: ActionInstance defines no __eq__.)
   A missing bound is None, times are exact rationals up to Qeq (python Fractions; int/float bounds are converted with
   Fraction(float(b)) by __init__, which is exact for the values the harness uses). *)
From Coq Require Import List ZArith NArith QArith Qabs Bool.
Import ListNotations.
Require Import UPV.Model.Stn UPV.Planning.StnPlan.

(* ------------------------------------------------------------------ STNPlan.__init__, call by call *)
Inductive iop :=
| IAdd (c : cstr)          (* _stn.add(x, y, b) *)
| IReg (x y : N).          (* insert_interval(x, y) with both bounds None: two setdefault on _distances *)

(* insert_interval(a, b, left_bound=lb, right_bound=ub) *)
Definition interval_ops (a b : N) (lb ub : oq) : list iop :=
  match lb, ub with
  | None, None => [IReg a b]
  | _, _ => map IAdd (interval_adds a b lb ub)
  end.

(* one iteration of `for a_node, lower_bound, upper_bound, b_node in gen` *)
Definition pcon_ops (c : pcon) : list iop :=
  match c with (a, lb, ub, b) => map IAdd (node_adds a ++ node_adds b) ++ interval_ops a b lb ub end.

Definition init_ops (cs : list pcon) : list iop :=
  IAdd (start_plan, end_plan, - 0) :: flat_map pcon_ops cs.

Definition reg (s : stn) (x y : N) : stn :=
  {| s_cons := s_cons s; s_dist := setdefault y 0 (setdefault x 0 (s_dist s)); s_sat := s_sat s; s_eps := s_eps s |}.

Fixpoint run_iops (fuel : nat) (s : stn) (ops : list iop) : option stn :=
  match ops with
  | [] => Some s
  | IAdd c :: r =>
      match add fuel s (fst (fst c)) (snd (fst c)) (snd c) with
      | Some s' => run_iops fuel s' r
      | None => None
      end
  | IReg x y :: r => run_iops fuel (reg s x y) r
  end.

(* STNPlan(constraints) for a constraint LIST (a dict is flattened first: StnPlan.flatten); None = out of fuel *)
Definition back_init (fuel : nat) (cs : list pcon) : option stn := run_iops fuel (empty_stn 0) (init_ops cs).

(* ------------------------------------------------------------------ STNPlan._convert_to_time_triggered *)
Definition back_map (s : stn) : amap := fold_left tt_collect (distances s) [].
Definition has_start (kv : N * (oq * oq)) : bool := match fst (snd kv) with Some _ => true | None => false end.

Inductive back_result :=
| BackPlan (p : list ttstep)     (* TimeTriggeredPlan(ttp_actions), in the order of the list *)
| BackError.                     (* AssertionError / TypeError *)

Definition back_convert (s : stn) : back_result :=
  if forallb (fun kv => Qle_bool (snd kv) 0) (distances s) && forallb has_start (back_map s)
  then BackPlan (to_tt s) else BackError.

(* STNPlan(constraints).convert_to(TIME_TRIGGERED_PLAN, problem) *)
Definition back_of_constraints (fuel : nat) (cs : list pcon) : option back_result :=
  match back_init fuel cs with Some s => Some (back_convert s) | None => None end.

(* ------------------------------------------------------------------ specification vocabulary *)
Definition pcon_nodes (c : pcon) : list N := match c with (a, _, _, b) => [a; b] end.
Definition nodes_of (cs : list pcon) : list N := flat_map pcon_nodes cs.
Definition mentioned (n : N) (cs : list pcon) : bool := existsb (N.eqb n) (nodes_of cs).
Definition snode (k : N) : N := (2 + 2 * k)%N.     (* START of action instance k *)
Definition enode (k : N) : N := (3 + 2 * k)%N.     (* END of action instance k *)

(* whenever the END of an action instance occurs in a constraint, so does its START (otherwise the implementation
   raises: `assert start is not None` / None < Fraction) *)
Definition starts_present (cs : list pcon) : bool :=
  forallb (fun n => (n <? 2)%N || N.even n || mentioned (n - 1) cs) (nodes_of cs).

(* the STN plan says that action instance k does not end before it starts: a constraint START -> END with a lower
   bound >= 0 (as _convert_to_stn generates: [d, d]) *)
Definition dur_nonneg_in (k : N) (cs : list pcon) : Prop :=
  exists l ub, In (snode k, Some l, ub, enode k) cs /\ 0 <= l.

(* reading the times of the nodes back from a time-triggered plan; the time-triggered plan has no GLOBAL_END, its time
   [ge] is a parameter *)
Definition step_of (x : ttstep) : N := snd (fst x).
Fixpoint tt_find (k : N) (p : list ttstep) : option ttstep :=
  match p with [] => None | x :: r => if (step_of x =? k)%N then Some x else tt_find k r end.
Definition tt_time (p : list ttstep) (ge : Q) (n : N) : Q :=
  if (n =? start_plan)%N then 0
  else if (n =? end_plan)%N then ge
  else match tt_find ((n - 2) / 2) p with
       | Some (st, _, du) => if N.even n then st else match du with Some d => st + d | None => st end
       | None => 0
       end.

Fixpoint sorted_by_start (p : list ttstep) : Prop :=
  match p with
  | a :: ((b :: _) as r) => fst (fst a) <= fst (fst b) /\ sorted_by_start r
  | _ => True
  end.

(* the nodes that STNPlan.__init__ touches: the global ones and those of the constraints *)
Definition init_node (cs : list pcon) (n : N) : Prop := n = start_plan \/ n = end_plan \/ In n (nodes_of cs).

(* what the back conversion guarantees about the time-triggered plan [plan] it returns for the constraints [cs]
   (s = the DeltaSTN of the STN plan, model_of s = the earliest schedule = least non-negative solution, C25):
   sorted by start; one entry per action instance; exactly the action instances whose START occurs in a constraint;
   start = earliest time of the START node, >= 0; duration None exactly when the END node occurs in no constraint,
   otherwise earliest END - earliest START; every node of the STN plan read back from the plan is at its earliest time *)
Record back_facts (cs : list pcon) (s : stn) (plan : list ttstep) : Prop := {
  bf_sorted : sorted_by_start plan;
  bf_nodup : NoDup (map step_of plan);
  bf_steps : forall k, In k (map step_of plan) <-> mentioned (snode k) cs = true;
  bf_entry : forall st k du, In (st, k, du) plan ->
      st == model_of s (snode k) /\ 0 <= st /\
      match du with
      | Some d => mentioned (enode k) cs = true /\ d == model_of s (enode k) - st
      | None => mentioned (enode k) cs = false
      end;
  bf_time : forall n, init_node cs n -> tt_time plan (model_of s end_plan) n == model_of s n
}.

(* the time-triggered plan [bp] has the action instances of [plan] (by position) with the same durations *)
Definition same_instances (plan : list step) (bp : list ttstep) : Prop :=
  NoDup (map step_of bp) /\
  (forall k, In k (map step_of bp) <-> (N.to_nat k < length plan)%nat) /\
  (forall st k du, In (st, k, du) bp ->
     exists stp, nth_error plan (N.to_nat k) = Some stp /\
       match du, st_dur stp with
       | None, None => True
       | Some d, Some d' => d == d'
       | _, _ => False
       end).
