(* The simulator's only cross-query mutable state is a memo of grounded actions
   (GrounderHelper._grounded_actions: key = (action name, parameters) -> grounded action or None; the StateEvaluator's
   memo is invalidated at every walk and its assignment fields are reset in a `finally`).  This file models a simulator
   instance as a cache threaded through a sequence of queries. *)
From Coq Require Import List Bool.
Import ListNotations.

Section Cache.
  Variables K A Q R : Type.
  Variable keqb : K -> K -> bool.
  Variable ground : K -> A.            (* the cache-free grounding function *)
  Variable key : Q -> K.               (* which grounding a query needs *)
  Variable answer : A -> Q -> R.       (* the query's answer from the grounded action (state is part of the query) *)

  Definition cache := list (K * A).

  Fixpoint cfind (k : K) (c : cache) : option A :=
    match c with
    | [] => None
    | (k', a) :: c' => if keqb k k' then Some a else cfind k c'
    end.

  (* GrounderHelper.ground_action: return the memoised result or compute and memoise it *)
  Definition cached_ground (c : cache) (k : K) : A * cache :=
    match cfind k c with
    | Some a => (a, c)
    | None => (ground k, (k, ground k) :: c)
    end.

  Definition cached_query (c : cache) (q : Q) : R * cache :=
    let '(a, c') := cached_ground c (key q) in (answer a q, c').

  Fixpoint run_cached_queries (c : cache) (qs : list Q) : list R * cache :=
    match qs with
    | [] => ([], c)
    | q :: qs' => let '(r, c') := cached_query c q in
                  let '(rs, c'') := run_cached_queries c' qs' in (r :: rs, c'')
    end.
End Cache.
