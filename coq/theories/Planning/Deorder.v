(* Deordering of a sequential plan (C27): definitions only.
   Mirrors unified_planning/plans/sequential_plan.py  SequentialPlan._to_partial_order_plan  and the notions of
   unified_planning/plans/partial_order_plan.py (all_sequential_plans = the topological orders of the graph).

   Read / write sets.  The code computes, per action instance,
     lifted_required_fluents = FreeVarsExtractor.get(ExpressionQuantifiersRemover.remove_quantifiers(x, problem))
   for x in: every precondition, and for every effect of `effect.expand_effect(problem)` (forall effects expanded over
   the objects of their variables) its condition, its target fluent expression and its value; then every lifted fluent
   is grounded by substituting the actual parameters and simplifying.  It raises UPUsageError when a fluent occurs
   inside the parameters of a fluent ("nested" fluents).  Written fluents are the grounded targets of the expanded
   effects (all kinds: assign / increase / decrease, conditional or not).
   Model: [reads e I] walks the expression under an interpretation I that binds the action parameters (and, below a
   quantifier / forall effect, the bound variables, ranging over the same object lists in the same order as
   itertools.product); a fluent occurrence f(args) contributes the ground fluent (f, values of args) — arguments are
   evaluated, which for constants, parameters and bound variables is exactly the substitution the code performs.
   [has_fluent] = "the quantifier-expanded expression contains a fluent expression", [nf] = the code's nested-fluent
   test passes.  Nested occurrences are collected too (as the code does before raising), but every theorem assumes
   [nf]: with a nested fluent the code raises and [deorder] is None.
   Consequences visible in the definitions: a conditional effect's condition is read; an effect's value is read; the
   target of EVERY effect (also a plain assignment) is read, hence writes are a subset of reads (this is what orders
   two writers of the same fluent); forall effects are expanded.

   The graph: `last_modifier` (ground fluent -> last instance that wrote it), `all_required` (ground fluent -> instances
   that read it), edges  last_modifier[f] -> x  for f read by x, and  r -> x  for every earlier reader r of a fluent
   written by x.  networkx.transitive_reduction is abstracted as "any graph with the same reachability relation". *)
From Coq Require Import List ZArith NArith QArith Qcanon Bool Relations Permutation.
Import ListNotations.
Require Import UPV.Core.Expr UPV.Core.Eval UPV.Core.Interp UPV.Planning.Problem UPV.Planning.Sem.

(* an action instance of a plan: (action id, actual parameters) — same shape as a ground fluent, so [gfl_eqb] compares *)
Definition inst := (N * list value)%type.
Definition inst_eqb : inst -> inst -> bool := gfl_eqb.

Definition set_fl (I : interp) (s : state) : interp :=
  {| fl := s; par := par I; var := var I; ifun := ifun I; objs := objs I |}.

Definition empty_state : state := fun _ _ => None.

(* FreeVarsExtractor.get(remove_quantifiers(e)) is non-empty *)
Fixpoint has_fluent (e : expr) (I : interp) {struct e} : bool :=
  match e with
  | EBool _ | EInt _ | EReal _ | EObj _ | EParam _ | EVar _ _ => false
  | EFluent _ _ => true
  | EIFun _ l | EAnd l | EOr l | EPlus l | ETimes l => existsb (fun x => has_fluent x I) l
  | ENot a | EAlways a | ESometime a | EAtMostOnce a => has_fluent a I
  | EExists vs a | EForall vs a => existsb (fun J => has_fluent a J) (instances I vs)
  | EImplies a b | EIff a b | EMinus a b | EDiv a b | ELe a b | ELt a b | EEquals a b
  | ESometimeBefore a b | ESometimeAfter a b => has_fluent a I || has_fluent b I
  end.

(* the "no fluents inside the parameter of fluents" test of _to_partial_order_plan passes *)
Fixpoint nf (e : expr) (I : interp) {struct e} : bool :=
  match e with
  | EBool _ | EInt _ | EReal _ | EObj _ | EParam _ | EVar _ _ => true
  | EFluent _ args => forallb (fun a => negb (has_fluent a I)) args
  | EIFun _ l | EAnd l | EOr l | EPlus l | ETimes l => forallb (fun x => nf x I) l
  | ENot a | EAlways a | ESometime a | EAtMostOnce a => nf a I
  | EExists vs a | EForall vs a => forallb (fun J => nf a J) (instances I vs)
  | EImplies a b | EIff a b | EMinus a b | EDiv a b | ELe a b | ELt a b | EEquals a b
  | ESometimeBefore a b | ESometimeAfter a b => nf a I && nf b I
  end.

Section Reads.
  Variable sc : bool.      (* quantifier mode of the evaluator used for fluent arguments (irrelevant under [nf]
                              for object-typed arguments); kept so that every theorem holds for both modes *)

  Fixpoint reads (e : expr) (I : interp) {struct e} : list gfl :=
    match e with
    | EBool _ | EInt _ | EReal _ | EObj _ | EParam _ | EVar _ _ => []
    | EFluent f args =>
        (match evals_l sc I args with Some vs => [(f, vs)] | None => [] end) ++ flat_map (fun a => reads a I) args
    | EIFun _ l | EAnd l | EOr l | EPlus l | ETimes l => flat_map (fun x => reads x I) l
    | ENot a | EAlways a | ESometime a | EAtMostOnce a => reads a I
    | EExists vs a | EForall vs a => flat_map (fun J => reads a J) (instances I vs)
    | EImplies a b | EIff a b | EMinus a b | EDiv a b | ELe a b | ELt a b | EEquals a b
    | ESometimeBefore a b | ESometimeAfter a b => reads a I ++ reads b I
    end.

  (* one expanded effect (J binds the forall variables) *)
  Definition eff_target (e : effect) : expr := EFluent (e_fl e) (e_args e).
  Definition eff_reads (e : effect) (J : interp) : list gfl :=
    reads (e_cond e) J ++ reads (eff_target e) J ++ reads (e_val e) J.
  Definition eff_writes (e : effect) (J : interp) : list gfl :=
    match evals_l sc J (e_args e) with Some vs => [(e_fl e, vs)] | None => [] end.
  Definition eff_nf (e : effect) (J : interp) : bool :=
    nf (e_cond e) J && nf (eff_target e) J && nf (e_val e) J.

  Section Prob.
    Variable P : problem.

    Definition inst_interp (a : action) (args : list value) : interp :=
      mk_interp P empty_state (zip_params (a_params a) args).

    Definition act_reads (a : action) (args : list value) : list gfl :=
      let I := inst_interp a args in
      flat_map (fun c => reads c I) (a_pre a) ++
      flat_map (fun e => flat_map (eff_reads e) (instances I (e_vars e))) (a_effs a).
    Definition act_writes (a : action) (args : list value) : list gfl :=
      let I := inst_interp a args in
      flat_map (fun e => flat_map (eff_writes e) (instances I (e_vars e))) (a_effs a).
    Definition act_nf (a : action) (args : list value) : bool :=
      let I := inst_interp a args in
      forallb (fun c => nf c I) (a_pre a) &&
      forallb (fun e => forallb (eff_nf e) (instances I (e_vars e))) (a_effs a).

    Definition inst_reads (x : inst) : list gfl :=
      match lookup_action P (fst x) with Some a => act_reads a (snd x) | None => [] end.
    Definition inst_writes (x : inst) : list gfl :=
      match lookup_action P (fst x) with Some a => act_writes a (snd x) | None => [] end.
    Definition inst_nf (x : inst) : bool :=
      match lookup_action P (fst x) with Some a => act_nf a (snd x) | None => true end.

    Definition gmem (k : gfl) (l : list gfl) : bool := existsb (gfl_eqb k) l.
    Definition intersects (a b : list gfl) : bool := existsb (fun k => gmem k b) a.

    (* "one writes a ground fluent that the other reads or writes" *)
    Definition conflict (x y : inst) : bool :=
      intersects (inst_writes x) (inst_reads y ++ inst_writes y) ||
      intersects (inst_writes y) (inst_reads x ++ inst_writes x).

    (* `required_fluents` is a Python set: every ground fluent once *)
    Fixpoint gdedup (l : list gfl) : list gfl :=
      match l with [] => [] | k :: r => if gmem k r then gdedup r else k :: gdedup r end.

    (* ---- the loop of _to_partial_order_plan ---- *)
    Definition lm_get (f : gfl) (lm : list (gfl * inst)) : option inst :=
      match find (fun p => gfl_eqb f (fst p)) lm with Some p => Some (snd p) | None => None end.

    (* lm: last_modifier, newest binding first; ar: all_required as (fluent, reader) pairs, oldest first *)
    Fixpoint deorder_go (lm ar : list (gfl * inst)) (pl : list inst) : list (inst * inst) :=
      match pl with
      | [] => []
      | x :: rest =>
          let R := gdedup (inst_reads x) in
          let W := inst_writes x in
          (* for required_fluent in required_fluents: all_required[..].append(x); edge last_modifier -> x *)
          let e1 := flat_map (fun f => match lm_get f lm with Some m => [(m, x)] | None => [] end) R in
          let ar' := ar ++ map (fun f => (f, x)) R in
          (* for every (expanded) effect: last_modifier[target] = x; edge reader -> x for every reader other than x *)
          let e2 := flat_map (fun f =>
                      flat_map (fun p => if gfl_eqb (fst p) f && negb (inst_eqb (snd p) x) then [(snd p, x)] else []) ar') W in
          let lm' := map (fun f => (f, x)) (rev W) ++ lm in
          e1 ++ e2 ++ deorder_go lm' ar' rest
      end.

    (* None = UPUsageError (nested fluents) *)
    Definition deorder (pl : list inst) : option (list (inst * inst)) :=
      if forallb inst_nf pl then Some (deorder_go [] [] pl) else None.

    (* ---- invariants: each one (user invariant or bounded-type constraint) reads at most one ground fluent ---- *)
    Definition inv_exprs : list expr := p_invs P ++ bound_invs P.
    Definition single_key (l : list gfl) : bool :=
      match l with [] => true | k :: r => forallb (gfl_eqb k) r end.
    Definition inv_local : bool :=
      forallb (fun e => let I := mk_interp P empty_state [] in nf e I && single_key (reads e I)) inv_exprs.
    Definition no_invariants : bool := match inv_exprs with [] => true | _ => false end.
  End Prob.
End Reads.

(* ---- partial orders over the instances of a plan ---- *)
Definition edge (G : list (inst * inst)) (x y : inst) : Prop := In (x, y) G.
Definition reach (G : list (inst * inst)) : inst -> inst -> Prop := clos_trans inst (edge G).

Definition before (l : list inst) (x y : inst) : Prop := exists l1 l2 l3, l = l1 ++ x :: l2 ++ y :: l3.

(* pl' is a linearisation of the partial-order plan with nodes [nodes] and edges G (networkx.all_topological_sorts) *)
Definition topological (G : list (inst * inst)) (nodes pl' : list inst) : Prop :=
  Permutation nodes pl' /\ forall x y, In (x, y) G -> before pl' x y.

(* ---- executable versions used by the correspondence ---- *)
Fixpoint before_b (l : list inst) (x y : inst) : bool :=
  match l with
  | [] => false
  | z :: l' => if inst_eqb z x then existsb (inst_eqb y) l' else before_b l' x y
  end.

Definition edge_eqb (a b : inst * inst) : bool := inst_eqb (fst a) (fst b) && inst_eqb (snd a) (snd b).
Definition emem (e : inst * inst) (G : list (inst * inst)) : bool := existsb (edge_eqb e) G.

(* one round of closure: add (x, z) whenever (x, y) and (y, z) are present (no duplicates are added) *)
Definition add_edge (e : inst * inst) (G : list (inst * inst)) : list (inst * inst) := if emem e G then G else e :: G.
Definition close_once (G : list (inst * inst)) : list (inst * inst) :=
  fold_left (fun acc xy => fold_left (fun acc yz =>
     if inst_eqb (snd xy) (fst yz) then add_edge (fst xy, snd yz) acc else acc) G acc) G G.
Fixpoint close_n (n : nat) (G : list (inst * inst)) : list (inst * inst) :=
  match n with O => G | S n' => close_n n' (close_once G) end.
(* paths double in length per round, so log2(#nodes)+1 rounds suffice; the correspondence passes the number of nodes *)
Fixpoint ededup (G : list (inst * inst)) : list (inst * inst) :=
  match G with [] => [] | e :: r => if emem e r then ededup r else e :: ededup r end.
Definition closure (n : nat) (G : list (inst * inst)) : list (inst * inst) := close_n n (ededup G).
Definition sub_edges (A B : list (inst * inst)) : bool := forallb (fun e => emem e B) A.
Definition same_reach_b (n : nat) (A B : list (inst * inst)) : bool :=
  let CA := closure n A in let CB := closure n B in sub_edges CA CB && sub_edges CB CA.
