(* Model of unified_planning/model/walkers/simplifier.py (class Simplifier) — definitions only.
   The walker is a DagWalker: children are simplified first, then the node function walk_* is applied to the
   simplified children.  Results are built with the ExpressionManager's normalising constructors
   (Core/Expr.v: mkAnd mkOr mkNot mkPlus mkTimes).

   Mirrored after the C11 fix commits in /repo (walk_div uses //, walk_exists: occurs check on the value, type
   compatibility of the value, variables kept in a list, re-simplification of the rebuilt node; walk_minus goes
   through walk_plus).

   External data is a parameter ([cfg]):
     - the user-type table used by walk_equals / walk_exists (FNode.type of objects, parameters, fluents,
       interpreted functions; variables carry their type; [anc t] = _UserType.ancestors of t),
     - [stat]: Problem.initial_value on the static fluents (Simplifier(env, problem)); empty for e.simplify(),
     - [itab]: the Python callables of interpreted functions, as an oracle table on constant arguments.
   Python constants: an accumulator is a Python int as long as only Int constants were met, a Fraction as soon as a
   Real constant is involved; _number_to_fnode makes an Int node from an int and a Real node from a Fraction (also
   when the Fraction is integral) — type [num]. *)
From Coq Require Import List ZArith NArith QArith Qcanon Bool.
Import ListNotations.
Require Import UPV.Core.Expr UPV.Core.Eval.
Local Open Scope nat_scope.

Record cfg := {
  obj_ty : N -> option N;                (* Object.type (None: an object the table does not know) *)
  par_ty : N -> option N;                (* Parameter.type when it is a user type *)
  fl_ty : N -> option N;                 (* Fluent.type when it is a user type *)
  if_ty : N -> option N;                 (* InterpretedFunction.return_type when it is a user type *)
  anc : N -> list N;                     (* _UserType.ancestors (the type itself included or not: both work) *)
  empty_ty : N -> bool;                  (* Simplifier._has_no_objects: the problem is given and has no object of the type *)
  stat : N -> list expr -> option expr;  (* static fluent applied to constant arguments -> initial value *)
  itab : N -> list expr -> option expr   (* interpreted function applied to constant arguments -> constant *)
}.

(* ---------------------------------------------------------------- constants *)
Definition is_num (e : expr) : bool := match e with EInt _ | EReal _ => true | _ => false end.
(* FNode.is_constant: Bool, Int, Real constants and objects *)
Definition is_const (e : expr) : bool := match e with EBool _ | EInt _ | EReal _ | EObj _ => true | _ => false end.
Definition is_boolc (e : expr) : bool := match e with EBool _ => true | _ => false end.

Inductive num := NI (z : Z) | NR (q : Qc).
Definition nval (n : num) : Qc := match n with NI z => zq z | NR q => q end.
Definition num_of (e : expr) : option num :=
  match e with EInt z => Some (NI z) | EReal q => Some (NR q) | _ => None end.
(* Simplifier._number_to_fnode *)
Definition num_expr (n : num) : expr := match n with NI z => EInt z | NR q => EReal q end.
Definition num_add (a b : num) : num :=
  match a, b with NI x, NI y => NI (x + y) | _, _ => NR (nval a + nval b)%Qc end.
Definition num_mul (a b : num) : num :=
  match a, b with NI x, NI y => NI (x * y) | _, _ => NR (nval a * nval b)%Qc end.
Definition num_sub (a b : num) : num :=
  match a, b with NI x, NI y => NI (x - y) | _, _ => NR (nval a - nval b)%Qc end.
Definition num_neg (a : num) : num := match a with NI x => NI (- x) | NR q => NR (- q)%Qc end.
Definition num_is0 (a : num) : bool := match a with NI x => (x =? 0)%Z | NR q => qc_is0 q end.
Definition num_is1 (a : num) : bool := match a with NI x => (x =? 1)%Z | NR q => qc_eqb q (zq 1) end.
Definition num_isneg (a : num) : bool := qc_ltb (nval a) (zq 0).

Definition mem_expr (x : expr) (l : list expr) : bool := existsb (expr_eqb x) l.

(* ---------------------------------------------------------------- walk_not *)
(* walk_not on the (already simplified) child; also what walk_and / walk_or call on every literal *)
Definition walk_not (c : expr) : expr :=
  match c with
  | EBool b => EBool (negb b)
  | ENot x => x
  | _ => ENot c
  end.

(* ---------------------------------------------------------------- walk_and / walk_or, generic in [k]
   k = true: And (unit true, zero false);  k = false: Or (unit false, zero true) *)
Definition is_unit (k : bool) (e : expr) : bool := match e with EBool b => Bool.eqb b k | _ => false end.
Definition is_zero (k : bool) (e : expr) : bool := match e with EBool b => Bool.eqb b (negb k) | _ => false end.
Definition junct_args (k : bool) (e : expr) : option (list expr) :=
  match e with
  | EAnd l => if k then Some l else None
  | EOr l => if k then None else Some l
  | _ => None
  end.
Definition mkJ (k : bool) (l : list expr) : expr := if k then mkAnd l else mkOr l.

(* new_args[s] = True on an OrderedDict: insertion order, a key that is present keeps its place *)
Definition add_key (s : expr) (seen : list expr) : list expr := if mem_expr s seen then seen else seen ++ [s].

(* the inner loop over the arguments of a nested And (Or); None = "return FALSE (TRUE)" *)
Fixpoint j_inner (ss : list expr) (seen : list expr) : option (list expr) :=
  match ss with
  | [] => Some seen
  | s :: ss' => if mem_expr (walk_not s) seen then None else j_inner ss' (add_key s seen)
  end.

Fixpoint j_outer (k : bool) (args : list expr) (seen : list expr) : option (list expr) :=
  match args with
  | [] => Some seen
  | a :: r =>
      if is_unit k a then j_outer k r seen
      else if is_zero k a then None
      else match junct_args k a with
           | Some ss => match j_inner ss seen with None => None | Some seen' => j_outer k r seen' end
           | None => if mem_expr (walk_not a) seen then None else j_outer k r (add_key a seen)
           end
  end.

Definition walk_junct_gen (k : bool) (args : list expr) : expr :=
  match j_outer k args [] with
  | None => EBool (negb k)
  | Some keys => mkJ k keys
  end.

Definition walk_junct (k : bool) (args : list expr) : expr :=
  match args with
  | [a; b] => if expr_eqb a b then a else walk_junct_gen k args
  | _ => walk_junct_gen k args
  end.

(* ---------------------------------------------------------------- walk_iff / walk_implies *)
Definition as_boolc (e : expr) : option bool := match e with EBool b => Some b | _ => None end.

Definition walk_iff (sl sr : expr) : expr :=
  match as_boolc sl, as_boolc sr with
  | Some l, Some r => EBool (Bool.eqb l r)
  | Some l, None => if l then sr else mkNot sr
  | None, Some r => if r then sl else mkNot sl
  | None, None => if expr_eqb sl sr then EBool true else EIff sl sr
  end.

Definition walk_implies (sl sr : expr) : expr :=
  match as_boolc sl, as_boolc sr with
  | Some l, _ => if l then sr else EBool true
  | None, Some r => if r then EBool true else mkNot sl
  | None, None => if expr_eqb sl sr then EBool true else EImplies sl sr
  end.

(* ---------------------------------------------------------------- trajectory operators *)
Definition walk_always (a : expr) : expr :=
  if is_true a then EBool true else if is_false a then EBool false else EAlways a.
Definition walk_sometime (a : expr) : expr :=
  if is_true a then EBool true else if is_false a then EBool false else ESometime a.
Definition walk_at_most_once (a : expr) : expr :=
  if is_true a || is_false a then EBool true else EAtMostOnce a.
Definition walk_sometime_before (a b : expr) : expr :=
  if is_false a then EBool true else if is_true a then EBool false else ESometimeBefore a b.
Definition walk_sometime_after (a b : expr) : expr :=
  if is_false a then EBool true
  else if is_true a && is_true b then EBool true
  else if is_true a && is_false b then EBool false
  else ESometimeAfter a b.

(* ---------------------------------------------------------------- types, walk_equals, walk_le, walk_lt *)
(* FNode.type restricted to user types *)
Definition user_type_of (G : cfg) (e : expr) : option N :=
  match e with
  | EObj o => obj_ty G o
  | EVar _ ty => Some ty
  | EParam p => par_ty G p
  | EFluent f _ => fl_ty G f
  | EIFun f _ => if_ty G f
  | _ => None
  end.

(* tl.is_compatible(tr) on user types: equal, or tl is an ancestor of tr *)
Definition compat (G : cfg) (tl tr : N) : bool := (tl =? tr)%N || memN tl (anc G tr).

(* payload equality of two constants (numbers by value, objects by identity) *)
Definition as_objc (e : expr) : option N := match e with EObj o => Some o | _ => None end.
Definition const_eqb (a b : expr) : bool :=
  match as_boolc a, as_boolc b with
  | Some x, Some y => Bool.eqb x y
  | _, _ =>
      match as_objc a, as_objc b with
      | Some x, Some y => (x =? y)%N
      | _, _ => match num_of a, num_of b with Some x, Some y => qc_eqb (nval x) (nval y) | _, _ => false end
      end
  end.

Definition walk_equals (G : cfg) (sl sr : expr) : expr :=
  if is_const sl && is_const sr then EBool (const_eqb sl sr)
  else if expr_eqb sl sr then EBool true
  else match user_type_of G sl, user_type_of G sr with
       | Some tl, Some tr => if negb (compat G tl tr) && negb (compat G tr tl) then EBool false else EEquals sl sr
       | _, _ => EEquals sl sr
       end.

Definition walk_le (sl sr : expr) : expr :=
  match num_of sl, num_of sr with
  | Some a, Some b => EBool (qc_leb (nval a) (nval b))
  | _, _ => ELe sl sr
  end.

Definition walk_lt (sl sr : expr) : expr :=
  match num_of sl, num_of sr with
  | Some a, Some b => EBool (qc_ltb (nval a) (nval b))
  | _, _ => ELt sl sr
  end.

(* ---------------------------------------------------------------- walk_fluent_exp / walk_interpreted_function_exp *)
Definition walk_fluent (G : cfg) (f : N) (args : list expr) : expr :=
  if forallb is_const args
  then match stat G f args with Some c => c | None => EFluent f args end
  else EFluent f args.

Definition walk_ifun (G : cfg) (f : N) (args : list expr) : expr :=
  if forallb is_const args
  then match itab G f args with Some c => c | None => EIFun f args end
  else EIFun f args.

(* ---------------------------------------------------------------- walk_plus / walk_times, generic in [t]
   t = false: Plus (unit 0);  t = true: Times (unit 1, zero absorbing) *)
Definition flat1 (t : bool) (args : list expr) : list expr :=
  flat_map (fun a => match a with
                     | EPlus l => if t then [a] else l
                     | ETimes l => if t then l else [a]
                     | _ => [a]
                     end) args.
Definition consts_of (l : list expr) : list num :=
  flat_map (fun x => match num_of x with Some n => [n] | None => [] end) l.
Definition nonconsts_of (l : list expr) : list expr := filter (fun x => negb (is_num x)) l.
Definition num_op (t : bool) : num -> num -> num := if t then num_mul else num_add.
Definition num_unit (t : bool) : num := if t then NI 1 else NI 0.
Definition num_is_unit (t : bool) : num -> bool := if t then num_is1 else num_is0.
Definition mkA (t : bool) (l : list expr) : expr := if t then mkTimes l else mkPlus l.

Definition walk_arith (t : bool) (args : list expr) : expr :=
  let items := flat1 t args in
  let cs := consts_of items in
  let ncs := nonconsts_of items in
  if t && existsb num_is0 cs then EInt 0
  else
    let acc := fold_left (num_op t) cs (num_unit t) in
    if num_is_unit t acc then mkA t ncs else mkA t (ncs ++ [num_expr acc]).

Definition walk_minus (l r : expr) : expr :=
  match num_of l, num_of r with
  | Some a, Some b => num_expr (num_sub a b)
  | None, Some b => if num_isneg b then walk_arith false [l; num_expr (num_neg b)] else EMinus l r
  | _, None => EMinus l r
  end.

(* a constant zero divisor makes the Python code raise (ZeroDivisionError / AssertionError): the model leaves the
   node in place and [raises] below reports it *)
Definition walk_div (l r : expr) : expr :=
  match num_of l, num_of r with
  | Some (NI a), Some (NI b) =>
      if (b =? 0)%Z then EDiv l r
      else if (a mod b =? 0)%Z then EInt (a / b) else EReal (Qcdiv (zq a) (zq b))
  | Some a, Some b => if num_is0 b then EDiv l r else EReal (Qcdiv (nval a) (nval b))
  | _, _ => EDiv l r
  end.

(* ---------------------------------------------------------------- substitution of one variable
   FNode.substitute({VariableExp(x): t}) = Substituter for a single key: top-down replacement of the key, no
   replacement below a quantifier that binds x, nodes rebuilt by IdentityDagWalker (normalising constructors). *)
Fixpoint subst (x : N) (t : expr) (e : expr) {struct e} : expr :=
  match e with
  | EBool _ | EInt _ | EReal _ | EObj _ | EParam _ => e
  | EVar y _ => if (y =? x)%N then t else e
  | EFluent f l => EFluent f (map (subst x t) l)
  | EIFun f l => EIFun f (map (subst x t) l)
  | EAnd l => mkAnd (map (subst x t) l)
  | EOr l => mkOr (map (subst x t) l)
  | ENot a => mkNot (subst x t a)
  | EImplies a b => EImplies (subst x t a) (subst x t b)
  | EIff a b => EIff (subst x t a) (subst x t b)
  | EExists vs a => if memN x (map fst vs) then e else EExists vs (subst x t a)
  | EForall vs a => if memN x (map fst vs) then e else EForall vs (subst x t a)
  | EPlus l => mkPlus (map (subst x t) l)
  | EMinus a b => EMinus (subst x t a) (subst x t b)
  | ETimes l => mkTimes (map (subst x t) l)
  | EDiv a b => EDiv (subst x t a) (subst x t b)
  | ELe a b => ELe (subst x t a) (subst x t b)
  | ELt a b => ELt (subst x t a) (subst x t b)
  | EEquals a b => EEquals (subst x t a) (subst x t b)
  | EAlways a => EAlways (subst x t a)
  | ESometime a => ESometime (subst x t a)
  | ESometimeBefore a b => ESometimeBefore (subst x t a) (subst x t b)
  | ESometimeAfter a b => ESometimeAfter (subst x t a) (subst x t b)
  | EAtMostOnce a => EAtMostOnce (subst x t a)
  end.

(* ---------------------------------------------------------------- walk_exists / walk_forall *)
Definition bound_in (x : N) (vs : list (N * N)) : bool := memN x (map fst vs).

(* vars = [var for var in expression.variables() if var in free_vars or self._has_no_objects(var.type)] *)
Definition prune (G : cfg) (vs : list (N * N)) (body : expr) : list (N * N) :=
  filter (fun p => memN (fst p) (free_vars body) || empty_ty G (snd p)) vs.

(* vars.remove(variable.variable()): first occurrence *)
Fixpoint remove_var (x : N) (vs : list (N * N)) : list (N * N) :=
  match vs with
  | [] => []
  | p :: r => if (fst p =? x)%N then r else p :: remove_var x r
  end.

Definition is_bvar (vs : list (N * N)) (a : expr) : bool :=
  match a with EVar x _ => bound_in x vs | _ => false end.

(* the test made on one conjunct: Some (x, value) when it is an eliminable equality *)
Definition elim_cand (G : cfg) (vs : list (N * N)) (c : expr) : option (N * expr) :=
  match c with
  | EEquals a b =>
      let variable := if is_bvar vs a then a else b in
      let value := if is_bvar vs a then b else a in
      match variable with
      | EVar x ty =>
          if bound_in x vs && negb (memN x (free_vars value))
             && match user_type_of G value with Some tv => compat G ty tv | None => false end
          then Some (x, value) else None
      | _ => None
      end
  | _ => None
  end.

(* first eliminable conjunct: (conjuncts before, (x, value), conjuncts after) *)
Fixpoint find_elim (G : cfg) (vs : list (N * N)) (l : list expr) : option (list expr * (N * expr) * list expr) :=
  match l with
  | [] => None
  | c :: r =>
      match elim_cand G vs c with
      | Some xt => Some ([], xt, r)
      | None => match find_elim G vs r with
                | Some (pre, xt, post) => Some (c :: pre, xt, post)
                | None => None
                end
      end
  end.

(* one iteration of the while loop *)
Definition elim_step (G : cfg) (vs : list (N * N)) (body : expr) : option (list (N * N) * expr) :=
  match body with
  | EAnd l => match find_elim G vs l with
              | Some (pre, (x, t), post) => Some (remove_var x vs, subst x t (mkAnd (pre ++ post)))
              | None => None
              end
  | _ => None
  end.

(* the while loop; every iteration removes a variable, so [length vars] iterations are enough *)
Fixpoint elim_loop (G : cfg) (k : nat) (vs : list (N * N)) (body : expr) : list (N * N) * expr :=
  match k with
  | O => (vs, body)
  | S k' => match elim_step G vs body with
            | Some (vs', body') => elim_loop G k' vs' body'
            | None => (vs, body)
            end
  end.

Definition mkExists (vs : list (N * N)) (b : expr) : expr := match vs with [] => b | _ => EExists vs b end.
Definition mkForall (vs : list (N * N)) (b : expr) : expr := match vs with [] => b | _ => EForall vs b end.

(* [resimp] = Simplifier._simplify_rebuilt *)
Definition walk_exists (G : cfg) (resimp : expr -> expr) (vs : list (N * N)) (body : expr) : expr :=
  let vs0 := prune G vs body in
  match elim_step G vs0 body with
  | None => mkExists vs0 body
  | Some _ => let '(vs1, b1) := elim_loop G (length vs0) vs0 body in resimp (mkExists vs1 b1)
  end.

Definition walk_forall (G : cfg) (vs : list (N * N)) (body : expr) : expr := mkForall (prune G vs body) body.

(* ---------------------------------------------------------------- the walker
   [simp n]: n bounds the nesting of _simplify_rebuilt calls (a nested simplifier started from inside walk_exists);
   with n = 0 the rebuilt node is returned as it is.  [simp_ok n e] tells whether the bound was NOT hit; the
   top-level [simplify] returns None (out of fuel) otherwise, and the theorems exclude that result. *)
Fixpoint simp (G : cfg) (n : nat) : expr -> expr :=
  fix go (e : expr) : expr :=
    let resimp := match n with O => (fun x => x) | S n' => simp G n' end in
    match e with
    | EBool _ | EInt _ | EReal _ | EObj _ | EParam _ | EVar _ _ => e
    | EFluent f l => walk_fluent G f (map go l)
    | EIFun f l => walk_ifun G f (map go l)
    | EAnd l => walk_junct true (map go l)
    | EOr l => walk_junct false (map go l)
    | ENot a => walk_not (go a)
    | EImplies a b => walk_implies (go a) (go b)
    | EIff a b => walk_iff (go a) (go b)
    | EExists vs a => walk_exists G resimp vs (go a)
    | EForall vs a => walk_forall G vs (go a)
    | EPlus l => walk_arith false (map go l)
    | EMinus a b => walk_minus (go a) (go b)
    | ETimes l => walk_arith true (map go l)
    | EDiv a b => walk_div (go a) (go b)
    | ELe a b => walk_le (go a) (go b)
    | ELt a b => walk_lt (go a) (go b)
    | EEquals a b => walk_equals G (go a) (go b)
    | EAlways a => walk_always (go a)
    | ESometime a => walk_sometime (go a)
    | ESometimeBefore a b => walk_sometime_before (go a) (go b)
    | ESometimeAfter a b => walk_sometime_after (go a) (go b)
    | EAtMostOnce a => walk_at_most_once (go a)
    end.

(* did the walk stay within the nesting bound? *)
Fixpoint simp_ok (G : cfg) (n : nat) : expr -> bool :=
  fix go (e : expr) : bool :=
    match e with
    | EBool _ | EInt _ | EReal _ | EObj _ | EParam _ | EVar _ _ => true
    | EFluent _ l | EIFun _ l | EAnd l | EOr l | EPlus l | ETimes l => forallb go l
    | ENot a | EAlways a | ESometime a | EAtMostOnce a | EForall _ a => go a
    | EImplies a b | EIff a b | EMinus a b | EDiv a b | ELe a b | ELt a b | EEquals a b
    | ESometimeBefore a b | ESometimeAfter a b => go a && go b
    | EExists vs a =>
        go a &&
        (let body := simp G n a in
         let vs0 := prune G vs body in
         match elim_step G vs0 body with
         | None => true
         | Some _ =>
             match n with
             | O => false
             | S n' => let '(vs1, b1) := elim_loop G (length vs0) vs0 body in simp_ok G n' (mkExists vs1 b1)
             end
         end)
    end.

Definition simplify (G : cfg) (e : expr) : option expr :=
  let n := size e in
  if simp_ok G n e then Some (simp G n e) else None.

(* ---------------------------------------------------------------- where the Python code raises
   walk_div on a constant zero divisor (ZeroDivisionError from %, or the assert / Fraction(…, 0)). *)
(* strict = true: both operands are constants (the code surely raises); strict = false: the divisor is the constant 0
   (when the dividend is not a constant the code builds Div(l, 0), and the TYPE CHECKER raises ZeroDivisionError if the
   dividend's type has a bound — types of numeric expressions are outside this model) *)
Definition div0 (strict : bool) (l r : expr) : bool :=
  match num_of r with Some b => num_is0 b && (negb strict || is_num l) | None => false end.

Fixpoint raises (G : cfg) (strict : bool) (n : nat) : expr -> bool :=
  fix go (e : expr) : bool :=
    match e with
    | EBool _ | EInt _ | EReal _ | EObj _ | EParam _ | EVar _ _ => false
    | EFluent _ l | EIFun _ l | EAnd l | EOr l | EPlus l | ETimes l => existsb go l
    | ENot a | EAlways a | ESometime a | EAtMostOnce a | EForall _ a => go a
    | EImplies a b | EIff a b | EMinus a b | ELe a b | ELt a b | EEquals a b
    | ESometimeBefore a b | ESometimeAfter a b => go a || go b
    | EDiv a b => go a || go b || div0 strict (simp G n a) (simp G n b)
    | EExists vs a =>
        go a ||
        (let body := simp G n a in
         let vs0 := prune G vs body in
         match elim_step G vs0 body with
         | None => false
         | Some _ =>
             match n with
             | O => false
             | S n' => let '(vs1, b1) := elim_loop G (length vs0) vs0 body in raises G strict n' (mkExists vs1 b1)
             end
         end)
    end.
