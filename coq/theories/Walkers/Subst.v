(* C13 — the substituter.  DEFINITIONS ONLY (proofs: Proofs/Subst_proofs.v, statements: Props/C13.v).

   Part 1 mirrors the code:
     unified_planning/model/walkers/substituter.py   Substituter.substitute / _push_with_children_to_stack /
                                                     walk_replace_or_identity
     unified_planning/model/walkers/identitydag.py   IdentityDagWalker.walk_* (rebuild through the ExpressionManager)
     unified_planning/model/types.py                 is_compatible_type (the up-front check of the map)
   Part 2 is the specification written from the property text (topdown_replace, capture_free, nf, updated
   interpretation); it shares with part 1 only Core/Expr.v (expressions, free_vars, the manager's constructors). *)
From Coq Require Import List ZArith NArith QArith Qcanon Bool.
Import ListNotations.
Require Import UPV.Core.Expr UPV.Core.Eval UPV.Core.Interp.
Local Open Scope nat_scope.

(* ===================================================================================================== *)
(* Part 1 — the model of the code                                                                        *)
(* ===================================================================================================== *)

(* A substitution map: the Python dict [new_substitutions] (FNode -> FNode) in insertion order.  Python dict keys
   are unique; FNode equality/hash is node identity, which under hash-consing is structural equality (expr_eqb). *)
Definition smap := list (expr * expr).

(* subs.get(expression, None) *)
Fixpoint lookup (s : smap) (e : expr) : option expr :=
  match s with
  | [] => None
  | (k, v) :: s' => if expr_eqb k e then Some v else lookup s' e
  end.

(* _push_with_children_to_stack, quantifier case, step 1:
     all(m not in expression.variables() for m in free_vars_oracle.get_free_variables(k))
   Variable ids stand for Variable objects (name + type), so membership in expression.variables() is membership of the id. *)
Definition key_kept (vs : list (N * N)) (k : expr) : bool :=
  forallb (fun m => negb (memN m (map fst vs))) (free_vars k).

Definition filter_map (s : smap) (vs : list (N * N)) : smap :=
  filter (fun kv => key_kept vs (fst kv)) s.

(* The key test.  Since fix 1ac14af `_push_with_children_to_stack` looks the ORIGINAL node up before pushing its
   children: a key is memoised to its value at once and its children are never visited (before the fix the children
   were walked first and their results discarded by walk_replace_or_identity, so an exception while rebuilding a child
   of a key escaped).  For a node that is not a key, walk_replace_or_identity looks it up again (None) and returns
   IdentityDagWalker's rebuild from the children's results.  In a pure total model the two orders are the same term. *)
Definition replace_or_identity (s : smap) (original rebuilt : expr) : expr :=
  match lookup s original with
  | Some v => v
  | None => rebuilt
  end.

(* Substituter.walk(expression, subs=s) for a NON-EMPTY checked map.  The DagWalker computes the children's results
   first (post-order, memoised per node: within one walker the result is a function of the node because [s] is fixed),
   then calls walk_replace_or_identity.  IdentityDagWalker rebuilds through ExpressionManager.And/Or/Not/Plus/Times
   (which normalise: mkAnd mkOr mkNot mkPlus mkTimes) and through the plain constructors for every other operator.
   Quantifiers are not expanded on the stack: a fresh Substituter is run on the body with the filtered map
   (its substitute() returns the body untouched when the filtered map is empty), then walk_replace_or_identity is
   called on the quantifier itself with the OUTER map. *)
Fixpoint walk (s : smap) (e : expr) {struct e} : expr :=
  replace_or_identity s e
    match e with
    | EBool _ | EInt _ | EReal _ | EObj _ | EParam _ | EVar _ _ => e
    | EFluent f args => EFluent f (map (walk s) args)
    | EIFun f args => EIFun f (map (walk s) args)
    | EAnd l => mkAnd (map (walk s) l)
    | EOr l => mkOr (map (walk s) l)
    | ENot a => mkNot (walk s a)
    | EImplies a b => EImplies (walk s a) (walk s b)
    | EIff a b => EIff (walk s a) (walk s b)
    | EExists vs a =>
        EExists vs (match filter_map s vs with [] => a | s' => walk s' a end)
    | EForall vs a =>
        EForall vs (match filter_map s vs with [] => a | s' => walk s' a end)
    | EPlus l => mkPlus (map (walk s) l)
    | EMinus a b => EMinus (walk s a) (walk s b)
    | ETimes l => mkTimes (map (walk s) l)
    | EDiv a b => EDiv (walk s a) (walk s b)
    | ELe a b => ELe (walk s a) (walk s b)
    | ELt a b => ELt (walk s a) (walk s b)
    | EEquals a b => EEquals (walk s a) (walk s b)
    | EAlways a => EAlways (walk s a)
    | ESometime a => ESometime (walk s a)
    | ESometimeBefore a b => ESometimeBefore (walk s a) (walk s b)
    | ESometimeAfter a b => ESometimeAfter (walk s a) (walk s b)
    | EAtMostOnce a => EAtMostOnce (walk s a)
    end.

(* Substituter.substitute once the type check of the map has passed:  `if len(substitutions) == 0: return expression` *)
Definition substitute (s : smap) (e : expr) : expr :=
  match s with
  | [] => e
  | _ => walk s e
  end.

(* ---- the up-front type check ----
   Types of keys and values are computed by the TypeChecker (outside this model; C15) and are supplied with the map.
   [uty] is what is_compatible_type looks at: the kind, numeric bounds (None = unbounded), and for user types the
   type id with the ids of its ancestors (the type itself first, as in _UserType.ancestors). *)
Inductive uty :=
| TyBool
| TyInt (lo hi : option Qc)
| TyReal (lo hi : option Qc)
| TyUser (t : N) (ancestors : list N)
| TyOther (tag : N).                     (* time / anything else: compatible only with itself *)

Definition obound_eqb (a b : option Qc) : bool :=
  match a, b with
  | Some x, Some y => qc_eqb x y
  | None, None => true
  | _, _ => false
  end.

(* t_left == t_right  (types are unique objects of the TypeManager: same kind and bounds / same user type) *)
Definition uty_eqb (a b : uty) : bool :=
  match a, b with
  | TyBool, TyBool => true
  | TyInt l h, TyInt l' h' => obound_eqb l l' && obound_eqb h h'
  | TyReal l h, TyReal l' h' => obound_eqb l l' && obound_eqb h h'
  | TyUser t _, TyUser u _ => (t =? u)%N
  | TyOther t, TyOther u => (t =? u)%N
  | _, _ => false
  end.

(* right_upper < left_lower  with  None = +inf on the left operand and -inf on the right operand *)
Definition upper_lt_lower (upper lower : option Qc) : bool :=
  match upper, lower with
  | Some u, Some l => qc_ltb u l
  | _, _ => false
  end.

Definition ranges_meet (ll lu rl ru : option Qc) : bool :=
  negb (upper_lt_lower ru ll || upper_lt_lower lu rl).

(* is_compatible_type(t_left, t_right) *)
Definition compat_ty (l r : uty) : bool :=
  if uty_eqb l r then true
  else match l, r with
       | TyUser t _, TyUser _ anc => memN t anc
       | TyInt ll lu, TyInt rl ru => ranges_meet ll lu rl ru
       | TyReal ll lu, TyReal rl ru => ranges_meet ll lu rl ru
       | TyReal ll lu, TyInt rl ru => ranges_meet ll lu rl ru
       | _, _ => false
       end.

(* the map as given to substitute(): key, value, type of key, type of value *)
Definition tmap := list (expr * expr * uty * uty).

Definition entry_ok (x : expr * expr * uty * uty) : bool :=
  match x with (_, _, tk, tv) => compat_ty tk tv end.

Definition untyped (t : tmap) : smap := map (fun x => match x with (k, v, _, _) => (k, v) end) t.

(* position of the first entry failing  new_k.type.is_compatible(new_v.type)  (the loop raises there) *)
Fixpoint first_bad (t : tmap) : option nat :=
  match t with
  | [] => None
  | x :: t' => if entry_ok x then option_map S (first_bad t') else Some 0
  end.

Inductive outcome :=
| Done (result : expr)
| TypeErr (entry : nat).                 (* UPTypeError naming the entry-th (key, value) pair *)

(* What a call leaves behind in the shared walker (environment.substituter): its memoization table.  The stack is
   empty between calls (DagWalker.walk clears it on failure, _process_stack empties it on success). *)
Definition wstate := list (expr * expr).

(* memoization filled by a completed walk (node -> result for every visited node); only its being cleared matters:
   Substituter is built with invalidate_memoization=True *)
Definition after_walk (st : wstate) : wstate := [].

(* Substituter.substitute(expression, substitutions) as called through FNode.substitute *)
Definition substitute_call (st : wstate) (t : tmap) (e : expr) : wstate * outcome :=
  match t with
  | [] => (st, Done e)
  | _ => match first_bad t with
         | Some i => (st, TypeErr i)
         | None => (after_walk st, Done (walk (untyped t) e))
         end
  end.

(* ===================================================================================================== *)
(* Part 2 — the specification (from the property text)                                                   *)
(* ===================================================================================================== *)

(* [e] is an occurrence of a key: the value it is mapped to *)
Definition assoc (s : smap) (e : expr) : option expr :=
  option_map snd (find (fun kv => expr_eqb e (fst kv)) s).

(* the key contains (free) a variable bound by the quantifier *)
Definition mentions_bound (vs : list (N * N)) (k : expr) : bool :=
  existsb (fun x => memN (fst x) (free_vars k)) vs.

Definition drop_bound (s : smap) (vs : list (N * N)) : smap :=
  filter (fun kv => negb (mentions_bound vs (fst kv))) s.

(* "the expression with each maximal occurrence of a key replaced by its value, working top-down and without
   re-substituting inside inserted values; inside a quantifier no key containing a variable bound by that
   quantifier is replaced".  Expressions are those of the ExpressionManager: a node is put back together with the
   manager's constructors (Not(Not x) is x; And/Or/Plus/Times of one argument is that argument). *)
Fixpoint topdown_replace (s : smap) (e : expr) {struct e} : expr :=
  match assoc s e with
  | Some v => v
  | None =>
    match e with
    | EBool _ | EInt _ | EReal _ | EObj _ | EParam _ | EVar _ _ => e
    | EFluent f args => EFluent f (map (topdown_replace s) args)
    | EIFun f args => EIFun f (map (topdown_replace s) args)
    | EAnd l => mkAnd (map (topdown_replace s) l)
    | EOr l => mkOr (map (topdown_replace s) l)
    | ENot a => mkNot (topdown_replace s a)
    | EImplies a b => EImplies (topdown_replace s a) (topdown_replace s b)
    | EIff a b => EIff (topdown_replace s a) (topdown_replace s b)
    | EExists vs a => EExists vs (topdown_replace (drop_bound s vs) a)
    | EForall vs a => EForall vs (topdown_replace (drop_bound s vs) a)
    | EPlus l => mkPlus (map (topdown_replace s) l)
    | EMinus a b => EMinus (topdown_replace s a) (topdown_replace s b)
    | ETimes l => mkTimes (map (topdown_replace s) l)
    | EDiv a b => EDiv (topdown_replace s a) (topdown_replace s b)
    | ELe a b => ELe (topdown_replace s a) (topdown_replace s b)
    | ELt a b => ELt (topdown_replace s a) (topdown_replace s b)
    | EEquals a b => EEquals (topdown_replace s a) (topdown_replace s b)
    | EAlways a => EAlways (topdown_replace s a)
    | ESometime a => ESometime (topdown_replace s a)
    | ESometimeBefore a b => ESometimeBefore (topdown_replace s a) (topdown_replace s b)
    | ESometimeAfter a b => ESometimeAfter (topdown_replace s a) (topdown_replace s b)
    | EAtMostOnce a => EAtMostOnce (topdown_replace s a)
    end
  end.

(* expressions the ExpressionManager's constructors can build: no Not directly under Not, n-ary operators have at
   least two arguments (everything else is unconstrained here) *)
Definition is_not (e : expr) : bool := match e with ENot _ => true | _ => false end.
Definition two_plus {A} (l : list A) : bool := match l with _ :: _ :: _ => true | _ => false end.

Fixpoint nf (e : expr) : bool :=
  match e with
  | EBool _ | EInt _ | EReal _ | EObj _ | EParam _ | EVar _ _ => true
  | EFluent _ l | EIFun _ l => forallb nf l
  | EAnd l | EOr l | EPlus l | ETimes l => two_plus l && forallb nf l
  | ENot a => negb (is_not a) && nf a
  | EAlways a | ESometime a | EAtMostOnce a | EExists _ a | EForall _ a => nf a
  | EImplies a b | EIff a b | EMinus a b | EDiv a b | ELe a b | ELt a b | EEquals a b
  | ESometimeBefore a b | ESometimeAfter a b => nf a && nf b
  end.

(* capture-freedom: at every place where a value is inserted, no free variable of the value is bound there.
   [B] = variables bound by the quantifiers above the current position. *)
Definition disjointN (a b : list N) : bool := forallb (fun x => negb (memN x b)) a.

Fixpoint cfree (B : list N) (s : smap) (e : expr) {struct e} : bool :=
  match assoc s e with
  | Some v => disjointN (free_vars v) B
  | None =>
    match e with
    | EBool _ | EInt _ | EReal _ | EObj _ | EParam _ | EVar _ _ => true
    | EFluent _ l | EIFun _ l | EAnd l | EOr l | EPlus l | ETimes l => forallb (cfree B s) l
    | ENot a | EAlways a | ESometime a | EAtMostOnce a => cfree B s a
    | EExists vs a | EForall vs a => cfree (map fst vs ++ B) (drop_bound s vs) a
    | EImplies a b | EIff a b | EMinus a b | EDiv a b | ELe a b | ELt a b | EEquals a b
    | ESometimeBefore a b | ESometimeAfter a b => cfree B s a && cfree B s b
    end
  end.

Definition capture_free (s : smap) (e : expr) : bool := cfree [] s e.

(* a value that is undefined or Boolean *)
Definition bool_or_undef (v : option value) : Prop :=
  v = None \/ exists b, v = Some (VBool b).

Definition bool_or_undef_b (v : option value) : bool :=
  match v with None | Some (VBool _) => true | _ => false end.

(* ---- "the interpretation updated by the map" for leaf keys: parameters, variables, ground fluent expressions ---- *)
Fixpoint ground_args (l : list expr) : option (list value) :=
  match l with
  | [] => Some []
  | EObj o :: l' => match ground_args l' with Some vs => Some (VObj o :: vs) | None => None end
  | _ :: _ => None
  end.

Definition leaf_key (k : expr) : bool :=
  match k with
  | EParam _ | EVar _ _ => true
  | EFluent _ args => match ground_args args with Some _ => true | None => false end
  | _ => false
  end.

(* I0 supplies the values of the replacements; entries earlier in the list win (as in [assoc]) *)
Definition upd1 (I0 : interp) (sc : bool) (kv : expr * expr) (I : interp) : interp :=
  let w := eval sc (snd kv) I0 in
  match fst kv with
  | EParam p =>
      {| fl := fl I; par := fun q => if (q =? p)%N then w else par I q; var := var I; ifun := ifun I; objs := objs I |}
  | EVar x _ =>
      {| fl := fl I; par := par I; var := fun y => if (y =? x)%N then w else var I y; ifun := ifun I; objs := objs I |}
  | EFluent f args =>
      match ground_args args with
      | Some ws =>
          {| fl := fun g a => if (g =? f)%N && values_eqb a ws then w else fl I g a;
             par := par I; var := var I; ifun := ifun I; objs := objs I |}
      | None => I
      end
  | _ => I
  end.

Definition updated (sc : bool) (s : smap) (I : interp) : interp :=
  fold_right (upd1 I sc) I s.

(* ---- when does an expression not read anything the update changes?  (purely syntactic, decidable) ---- *)
Definition key_par (s : smap) (q : N) : bool :=
  existsb (fun kv => match fst kv with EParam p => (p =? q)%N | _ => false end) s.
Definition key_var (s : smap) (x : N) : bool :=
  existsb (fun kv => match fst kv with EVar y _ => (y =? x)%N | _ => false end) s.
Definition key_fl (s : smap) (g : N) (ws : list value) : bool :=
  existsb (fun kv => match fst kv with
                     | EFluent f args => match ground_args args with
                                         | Some us => (f =? g)%N && values_eqb ws us
                                         | None => false
                                         end
                     | _ => false
                     end) s.
Definition key_fsym (s : smap) (g : N) : bool :=
  existsb (fun kv => match fst kv with EFluent f _ => (f =? g)%N | _ => false end) s.

(* no parameter / variable / ground fluent that is a key of [s] is read by [e] (a non-ground application of a key's
   fluent symbol counts as a possible read; so does any occurrence of a key variable, even a bound one) *)
Fixpoint unread (s : smap) (e : expr) {struct e} : bool :=
  match e with
  | EBool _ | EInt _ | EReal _ | EObj _ => true
  | EParam q => negb (key_par s q)
  | EVar x _ => negb (key_var s x)
  | EFluent g args =>
      forallb (unread s) args &&
      match ground_args args with
      | Some ws => negb (key_fl s g ws)
      | None => negb (key_fsym s g)
      end
  | EIFun _ l | EAnd l | EOr l | EPlus l | ETimes l => forallb (unread s) l
  | ENot a | EAlways a | ESometime a | EAtMostOnce a | EExists _ a | EForall _ a => unread s a
  | EImplies a b | EIff a b | EMinus a b | EDiv a b | ELe a b | ELt a b | EEquals a b
  | ESometimeBefore a b | ESometimeAfter a b => unread s a && unread s b
  end.

(* the keys are leaves and pairwise update different entries of the interpretation *)
Definition key_same (k : expr) (s : smap) : bool :=
  match k with
  | EParam p => key_par s p
  | EVar x _ => key_var s x
  | EFluent f args => match ground_args args with Some ws => key_fl s f ws | None => true end
  | _ => true
  end.

Fixpoint keys_ok (s : smap) : bool :=
  match s with
  | [] => true
  | (k, _) :: s' => leaf_key k && negb (key_same k s') && keys_ok s'
  end.
