(* Executable model of unified_planning/model/walkers/type_checker.py : TypeChecker (after the repairs
   "exact arithmetic for bounds" and "symmetric walk_equals"), and of the type constructors / compatibility test it
   calls in model/types.py (is_compatible_type, _UserType.ancestors) and model/type_manager.py (IntType, RealType).

   Types are values: the TypeManager memoises IntType/RealType/UserType by their key, so Python's `==` on types
   (object identity) is structural equality here.  Real bounds are canonical rationals (RealType normalises through
   uniform_numeric_constant + Fraction), integer bounds are integers.

   Outcome of a walk: [inl ty] = the type, [inr TypeErr] = the handler returned None / raised UPTypeError
   (get_type turns None into UPTypeError), [inr ZeroDiv] = ZeroDivisionError (constant zero divisor in walk_div),
   [inr AssertErr] = an assertion of the Python code fails (never on expressions built by the ExpressionManager). *)
From Coq Require Import List ZArith NArith QArith Qcanon Qround Bool.
Import ListNotations.
Require Import UPV.Core.Expr UPV.Core.Eval UPV.Core.Interp.
Local Open Scope Qc_scope.

Inductive ty :=
| TBool
| TInt (lo hi : option Z)
| TReal (lo hi : option Qc)
| TUser (t : N)
| TTime.                                     (* types.TIME; no expression of the IR has it, walk_equals/plus/minus mention it *)

Inductive err := TypeErr | ZeroDiv | AssertErr.

Definition optz_eqb (a b : option Z) : bool :=
  match a, b with Some x, Some y => (x =? y)%Z | None, None => true | _, _ => false end.
Definition optq_eqb (a b : option Qc) : bool :=
  match a, b with Some x, Some y => qc_eqb x y | None, None => true | _, _ => false end.

Definition ty_eqb (a b : ty) : bool :=
  match a, b with
  | TBool, TBool => true
  | TInt l1 h1, TInt l2 h2 => optz_eqb l1 l2 && optz_eqb h1 h2
  | TReal l1 h1, TReal l2 h2 => optq_eqb l1 l2 && optq_eqb h1 h2
  | TUser x, TUser y => (x =? y)%N
  | TTime, TTime => true
  | _, _ => false
  end.

(* typing environment: declared types of the symbols (finite maps as association lists, first binding wins) *)
Record tenv := {
  g_fl : list (N * (list ty * ty));          (* fluent -> (signature parameter types, fluent type) *)
  g_par : list (N * ty);                     (* parameter -> type *)
  g_var : list (N * N);                      (* variable -> user type id *)
  g_obj : list (N * N);                      (* object -> user type id *)
  g_ifun : list (N * (list ty * ty));        (* interpreted function -> (signature, return type) *)
  g_father : list (N * N)                    (* user type -> father *)
}.

Definition is_bool (t : ty) : bool := match t with TBool => true | _ => false end.
Definition is_int (t : ty) : bool := match t with TInt _ _ => true | _ => false end.
Definition is_real (t : ty) : bool := match t with TReal _ _ => true | _ => false end.
Definition is_user (t : ty) : bool := match t with TUser _ => true | _ => false end.
Definition is_time (t : ty) : bool := match t with TTime => true | _ => false end.
Definition is_num (t : ty) : bool := is_int t || is_real t.

(* x.lower_bound / x.upper_bound as exact rationals; None = unbounded *)
Definition lb (t : ty) : option Qc :=
  match t with TInt (Some z) _ => Some (zq z) | TReal (Some q) _ => Some q | _ => None end.
Definition ub (t : ty) : option Qc :=
  match t with TInt _ (Some z) => Some (zq z) | TReal _ (Some q) => Some q | _ => None end.

(* _UserType.ancestors: the type itself, its father, ...  (fuel = number of father declarations) *)
Fixpoint anc_fuel (fuel : nat) (fa : list (N * N)) (t : N) : list N :=
  match fuel with
  | O => [t]
  | S k => t :: match lookupN t fa with Some p => anc_fuel k fa p | None => [] end
  end.
Definition ancestors (G : tenv) (t : N) : list N := anc_fuel (length (g_father G)) (g_father G) t.

(* ---- types.is_compatible_type ---- *)
Definition opt_lt (a b : option Qc) : bool :=       (* a < b where a missing = +inf on the left use, see below *)
  match a, b with Some x, Some y => qc_ltb x y | _, _ => false end.

Definition compatible (G : tenv) (tl tr : ty) : bool :=
  if ty_eqb tl tr then true else
  match tl, tr with
  | TUser a, TUser b => memN a (ancestors G b)
  | TInt _ _, TInt _ _ | TReal _ _, TReal _ _ | TReal _ _, TInt _ _ =>
      (* right_upper < left_lower or right_lower > left_upper -> False  (None = -inf / +inf) *)
      negb (opt_lt (ub tr) (lb tl) || opt_lt (ub tl) (lb tr))
  | _, _ => false
  end.

(* ---- extended numbers: an interval side is a rational or +-infinity ---- *)
Inductive ext := NegInf | Fin (q : Qc) | PosInf.

Definition lo_ext (t : ty) : ext := match lb t with Some q => Fin q | None => NegInf end.
Definition hi_ext (t : ty) : ext := match ub t with Some q => Fin q | None => PosInf end.

Definition sgn (a : ext) : comparison :=
  match a with NegInf => Lt | PosInf => Gt | Fin x => (x ?= 0) end.

(* _bound_product: exact product of finite bounds; 0 * inf = 0; otherwise the sign rule *)
Definition emul (a b : ext) : ext :=
  match a, b with
  | Fin x, Fin y => Fin (x * y)
  | _, _ =>
      match sgn a, sgn b with
      | Eq, _ | _, Eq => Fin 0
      | Lt, Lt | Gt, Gt => PosInf
      | _, _ => NegInf
      end
  end.

(* a < b on extended numbers (Python compares int/Fraction with float inf exactly) *)
Definition eltb (a b : ext) : bool :=
  match a, b with
  | NegInf, NegInf => false
  | NegInf, _ => true
  | _, NegInf => false
  | PosInf, _ => false
  | _, PosInf => true
  | Fin x, Fin y => qc_ltb x y
  end.

(* builtin min / max over a tuple: keep the current one unless a later item is strictly smaller / larger *)
Definition emin (cur item : ext) : ext := if eltb item cur then item else cur.
Definition emax (cur item : ext) : ext := if eltb cur item then item else cur.
Definition min4 (a b c d : ext) : ext := emin (emin (emin a b) c) d.
Definition max4 (a b c d : ext) : ext := emax (emax (emax a b) c) d.

(* the final `if lower == -inf: lower = None`; a lower bound +inf would be passed to IntType/RealType (assertion) *)
Definition fin_lo (a : ext) : option (option Qc) :=
  match a with NegInf => Some None | Fin q => Some (Some q) | PosInf => None end.
Definition fin_hi (a : ext) : option (option Qc) :=
  match a with PosInf => Some None | Fin q => Some (Some q) | NegInf => None end.

(* IntType(lower, upper) / RealType(lower, upper) chosen by has_real.  When no operand is real every bound the
   Python code computes is an int (int arithmetic only); the model computes in Qc and converts back: on integral
   rationals Qceiling and Qfloor are the identity (lemmas zceil_zq / zfloor_zq in TypeInfer_proofs.v). *)
Definition zceil (q : Qc) : Z := Qceiling (this q).
Definition zfloor (q : Qc) : Z := Qfloor (this q).
Definition mk_num (has_real : bool) (lo hi : option Qc) : ty :=
  if has_real then TReal lo hi else TInt (option_map zceil lo) (option_map zfloor hi).

(* ---- walk_plus ---- *)
Fixpoint sum_all (bs : list (option Qc)) : option Qc :=
  match bs with
  | [] => Some (zq 0)
  | b :: r => match b, sum_all r with Some q, Some s => Some (q + s) | _, _ => None end
  end.
(* the loop: unbounded as soon as one operand is; the sum of the others otherwise; no operand: None *)
Definition sum_bounds (bs : list (option Qc)) : option Qc :=
  match bs with [] => None | _ => sum_all bs end.

Definition walk_plus (ts : list ty) : ty + err :=
  if negb (forallb (fun x => is_time x || is_num x) ts) then inr TypeErr
  else if existsb is_time ts then inl TTime
  else inl (mk_num (existsb is_real ts) (sum_bounds (map lb ts)) (sum_bounds (map ub ts))).

(* ---- walk_minus ---- *)
Definition sub_bound (a b : option Qc) : option Qc :=
  match a, b with Some x, Some y => Some (x - y) | _, _ => None end.

Definition walk_minus (ts : list ty) : ty + err :=
  match ts with
  | [l; r] =>
      if negb (forallb (fun x => is_time x || is_num x) ts) then inr TypeErr
      else if existsb is_time ts then inl TTime
      else inl (mk_num (existsb is_real ts) (sub_bound (lb l) (ub r)) (sub_bound (ub l) (lb r)))
  | _ => inr AssertErr
  end.

(* ---- walk_times ---- *)
Fixpoint times_loop (lower upper : ext) (ts : list ty) : ext * ext :=
  match ts with
  | [] => (lower, upper)
  | x :: r =>
      let l := lo_ext x in
      let u := hi_ext x in
      let p1 := emul lower l in let p2 := emul lower u in let p3 := emul upper l in let p4 := emul upper u in
      times_loop (min4 p1 p2 p3 p4) (max4 p1 p2 p3 p4) r
  end.

Definition walk_times (ts : list ty) : ty + err :=
  if negb (forallb is_num ts) then inr TypeErr else
  match ts with
  | [] => inl (mk_num false None None)
  | x :: r =>
      let '(lo, hi) := times_loop (lo_ext x) (hi_ext x) r in
      match fin_lo lo, fin_hi hi with
      | Some l, Some h => inl (mk_num (existsb is_real ts) l h)
      | _, _ => inr AssertErr
      end
  end.

(* ---- walk_div ---- *)
Definition unbounded (t : ty) : bool := match lb t, ub t with None, None => true | _, _ => false end.

Definition walk_div (ts : list ty) : ty + err :=
  match ts with
  | [l; r] =>
      if negb (forallb is_num ts) then inr TypeErr
      else if unbounded l || unbounded r || negb (optq_eqb (lb r) (ub r)) then inl (TReal None None)
      else match lb r with
           | None => inl (TReal None None)                       (* not reachable: both sides are Some here *)
           | Some d =>
               if qc_is0 d then inr ZeroDiv
               else
                 let lo := option_map (fun x => x / d) (lb l) in
                 let hi := option_map (fun x => x / d) (ub l) in
                 if qc_ltb d 0 then inl (TReal hi lo) else inl (TReal lo hi)
           end
  | _ => inr AssertErr
  end.

(* ---- walk_bool_to_bool, walk_always/sometime/..., walk_math_relation ---- *)
Definition walk_bool (ts : list ty) : ty + err :=
  if forallb is_bool ts then inl TBool else inr TypeErr.

Definition walk_rel (ts : list ty) : ty + err :=
  if forallb (fun x => is_num x || is_time x) ts then inl TBool else inr TypeErr.

(* ---- walk_equals (repaired: symmetric) ---- *)
Definition intersects (a b : list N) : bool := existsb (fun x => memN x b) a.

Definition user_eq_ok (G : tenv) (a b : N) : bool :=
  (a =? b)%N || memN a (ancestors G b) || memN b (ancestors G a) || intersects (ancestors G a) (ancestors G b).

Definition eq_arg_ok (G : tenv) (t x : ty) : bool :=
  if xorb (is_user t) (is_user x) then false
  else match t, x with
       | TUser a, TUser b => user_eq_ok G a b
       | _, _ => is_int x || is_real x || is_time x
       end.

Definition walk_equals (G : tenv) (ts : list ty) : ty + err :=
  match ts with
  | t :: _ =>
      if is_bool t then inr TypeErr                                 (* raise UPTypeError: use Iff *)
      else if forallb (eq_arg_ok G t) ts then inl TBool else inr TypeErr
  | [] => inr AssertErr
  end.

Definition wf_equals (G : tenv) (t1 t2 : ty) : bool :=
  match walk_equals G [t1; t2] with inl _ => true | inr _ => false end.

(* ---- walk_fluent_exp / walk_interpreted_function_exp ---- *)
Fixpoint all_compatible (G : tenv) (sg : list ty) (args : list ty) : bool :=
  match sg, args with
  | [], [] => true
  | p :: sg', a :: args' => compatible G p a && all_compatible G sg' args'
  | _, _ => false                                                   (* len(args) != len(signature) *)
  end.

Definition walk_app (G : tenv) (decl : option (list ty * ty)) (args : list ty) : ty + err :=
  match decl with
  | None => inr AssertErr
  | Some (sg, t) => if all_compatible G sg args then inl t else inr TypeErr
  end.

(* ---- the walk (DagWalker: children first, left to right; the first exception wins) ---- *)
Definition bind {A B} (r : A + err) (f : A -> B + err) : B + err :=
  match r with inl a => f a | inr e => inr e end.

Fixpoint infer_r (G : tenv) (e : expr) {struct e} : ty + err :=
  let fix infs (l : list expr) : list ty + err :=
    match l with
    | [] => inl []
    | x :: l' =>
        match infer_r G x with
        | inr er => inr er
        | inl t => match infs l' with inl ts => inl (t :: ts) | inr er => inr er end
        end
    end in
  let two (a b : expr) (k : list ty -> ty + err) : ty + err :=
    bind (infer_r G a) (fun ta => bind (infer_r G b) (fun tb => k [ta; tb])) in
  let one (a : expr) (k : list ty -> ty + err) : ty + err :=
    bind (infer_r G a) (fun ta => k [ta]) in
  match e with
  | EBool _ => inl TBool
  | EInt z => inl (TInt (Some z) (Some z))
  | EReal q => inl (TReal (Some q) (Some q))
  | EObj o => match lookupN o (g_obj G) with Some t => inl (TUser t) | None => inr AssertErr end
  | EParam p => match lookupN p (g_par G) with Some t => inl t | None => inr AssertErr end
  | EVar v t =>
      (* expression.variable().type: the declared type of the variable; the IR's annotation must agree with it *)
      match lookupN v (g_var G) with
      | Some t' => if (t =? t')%N then inl (TUser t) else inr AssertErr
      | None => inr AssertErr
      end
  | EFluent f args => bind (infs args) (walk_app G (lookupN f (g_fl G)))
  | EIFun f args => bind (infs args) (walk_app G (lookupN f (g_ifun G)))
  | EAnd l | EOr l => bind (infs l) walk_bool
  | ENot a | EExists _ a | EForall _ a | EAlways a | ESometime a | EAtMostOnce a => one a walk_bool
  | EImplies a b | EIff a b | ESometimeBefore a b => two a b walk_bool
  | ESometimeAfter a b =>
      (* walk_sometime_after asserts that both operands have the same type before looking at them *)
      two a b (fun ts => match ts with [x; y] => if ty_eqb x y then walk_bool ts else inr AssertErr | _ => inr AssertErr end)
  | EPlus l => bind (infs l) walk_plus
  | EMinus a b => two a b walk_minus
  | ETimes l => bind (infs l) walk_times
  | EDiv a b => two a b walk_div
  | ELe a b | ELt a b => two a b walk_rel
  | EEquals a b => two a b (walk_equals G)
  end.

(* FNode.type / TypeChecker.get_type: Some type, or None when the expression is rejected *)
Definition infer (G : tenv) (e : expr) : option ty :=
  match infer_r G e with inl t => Some t | inr _ => None end.

(* ---- membership of a value in a type (the specification side) ---- *)
Definition le_lo (b : option Qc) (q : Qc) : Prop := match b with Some l => l <= q | None => True end.
Definition le_hi (q : Qc) (b : option Qc) : Prop := match b with Some h => q <= h | None => True end.

Definition inhabits (G : tenv) (v : value) (t : ty) : Prop :=
  match v, t with
  | VBool _, TBool => True
  | VNum q, TInt lo hi =>
      exists z, q = zq z /\ match lo with Some l => (l <= z)%Z | None => True end
                         /\ match hi with Some h => (z <= h)%Z | None => True end
  | VNum q, TReal lo hi => le_lo lo q /\ le_hi q hi
  | VNum _, TTime => True
  | VObj o, TUser t => exists t', lookupN o (g_obj G) = Some t' /\ In t (ancestors G t')
  | _, _ => False
  end.

(* every fluent / parameter / variable / interpreted function takes values of its declared type *)
Record respects (G : tenv) (I : interp) : Prop := {
  r_fl : forall f sg t vs v, lookupN f (g_fl G) = Some (sg, t) -> fl I f vs = Some v -> inhabits G v t;
  r_par : forall p t v, lookupN p (g_par G) = Some t -> par I p = Some v -> inhabits G v t;
  r_var : forall x t v, lookupN x (g_var G) = Some t -> var I x = Some v -> inhabits G v (TUser t);
  r_ifun : forall f sg t vs v, lookupN f (g_ifun G) = Some (sg, t) -> ifun I f vs = Some v -> inhabits G v t
}.

(* executable membership test, used by the correspondence file as an oracle on the implementation's answer *)
Definition is_integral (q : Qc) : bool := (Zpos (Qden (this q)) =? 1)%Z.
Definition inhabitsb (G : tenv) (v : value) (t : ty) : bool :=
  match v, t with
  | VBool _, TBool => true
  | VNum q, TInt lo hi =>
      is_integral q
      && match lo with Some l => qc_leb (zq l) q | None => true end
      && match hi with Some h => qc_leb q (zq h) | None => true end
  | VNum q, TReal lo hi =>
      match lo with Some l => qc_leb l q | None => true end
      && match hi with Some h => qc_leb q h | None => true end
  | VNum _, TTime => true
  | VObj o, TUser t => match lookupN o (g_obj G) with Some t' => memN t (ancestors G t') | None => false end
  | _, _ => false
  end.
