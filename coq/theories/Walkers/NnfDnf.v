(* Executable model of unified_planning/model/walkers/dnf.py (after fix commit 401c179) — definitions only.

   Nnf.get_nnf_expression is an explicit-stack, polarity-passing traversal; [nnf_pol] is the same traversal written
   recursively (the stack entries (p, e, False) are the recursive calls, the entries (p, e, True) are the points where
   And/Or is rebuilt from the solved children, in the original argument order).  Everything that is not
   And / Or / Not / Implies / Iff — constants, fluents, comparisons, equalities, Exists/Forall, temporal operators — is an
   ATOM for this code: it is returned unchanged (polarity True) or wrapped in one Not (polarity False); the code never
   looks inside a quantifier.

   Dnf.get_dnf_expression = Or(And(c) for c in walk(nnf(e))), where the DagWalker computes a list of conjunctions
   (lists of literals): walk_all -> [[e]], walk_or -> concatenation, walk_and -> for every element of
   itertools.product over args the concatenated conjunction is SIMPLIFIED (Simplifier.simplify(And(big))) and
   then: TRUE -> return [[]] (the whole node is TRUE; before the fix this was [] = FALSE), FALSE -> dropped,
   And -> its args, anything else -> [simp].

   The simplifier.  Simplifier.simplify(And(l1..ln)) = Simplifier.walk_and([simplify(l1)..simplify(ln)]).
   [simp_and] mirrors Simplifier.walk_and exactly (the x==y shortcut, skipping TRUE, FALSE, one-level And flattening,
   OrderedDict duplicate removal, complementary-literal detection through walk_not).  [neg_of] mirrors
   Simplifier.walk_not.  What the simplifier does INSIDE an atom is a parameter [satom] of the model (Section
   variable); the instance used for the correspondence and for the closed theorems is [simp_atom]: Simplifier.walk_le /
   walk_lt / walk_equals on constant operands (1<=2 ~> true, 3<2 ~> false, o1==o2 ~> false), x==x ~> true, identity on
   every other atom.  So model = code for atoms whose operands are already simplifier-normal (constants, fluent /
   parameter / object expressions); arithmetic folding inside operands, quantifier simplification, static fluents,
   interpreted functions on constants and the user-type incompatibility rule of walk_equals are NOT modelled (C11's
   simplifier model can be plugged in for [satom]; the theorems of Proofs/NnfDnf_proofs.v are proved for every
   [satom] that is value-preserving and maps atoms to atoms). *)
From Coq Require Import List ZArith NArith QArith Qcanon Bool.
Import ListNotations.
Require Import UPV.Core.Expr UPV.Core.Eval.

(* ------------------------------------------------------------------ Nnf *)
Definition andp (p : bool) : list expr -> expr := if p then mkAnd else mkOr.   (* "if p: And(args) else: Or(args)" *)
Definition orp (p : bool) : list expr -> expr := if p then mkOr else mkAnd.

(* Nnf.get_nnf_expression with the polarity made explicit; the initial stack entry is (True, expression, False) *)
Fixpoint nnf_pol (p : bool) (e : expr) {struct e} : expr :=
  match e with
  | ENot a => nnf_pol (negb p) a
  | EAnd l => andp p (map (nnf_pol p) l)
  | EOr l => orp p (map (nnf_pol p) l)
  | EImplies a b => orp p [nnf_pol (negb p) a; nnf_pol p b]
  | EIff a b => orp p [andp p [nnf_pol p a; nnf_pol p b]; andp p [nnf_pol (negb p) a; nnf_pol (negb p) b]]
  | _ => if p then e else ENot e
  end.

Definition nnf (e : expr) : expr := nnf_pol true e.

(* ------------------------------------------------------------------ normal-form shapes (decidable) *)
Definition atomic (e : expr) : bool :=
  match e with EAnd _ | EOr _ | ENot _ | EImplies _ _ | EIff _ _ => false | _ => true end.

Definition literal (e : expr) : bool := match e with ENot a => atomic a | _ => atomic e end.

(* negation applied to atoms only; no Implies / Iff left *)
Fixpoint nnf_shape (e : expr) : bool :=
  match e with
  | EAnd l => forallb nnf_shape l
  | EOr l => forallb nnf_shape l
  | _ => literal e
  end.

(* a conjunction of literals (a single literal is a conjunction of one; true = the empty conjunction is a constant atom) *)
Definition conj_shape (e : expr) : bool := match e with EAnd l => forallb literal l | _ => literal e end.
(* a disjunction of conjunctions of literals *)
Definition dnf_shape (e : expr) : bool := match e with EOr l => forallb conj_shape l | _ => conj_shape e end.

(* the same shapes as propositions (Proofs/NnfDnf_proofs.v shows that the Boolean tests above decide them) *)
Inductive NNF : expr -> Prop :=
| NNF_atom a : atomic a = true -> NNF a
| NNF_neg a : atomic a = true -> NNF (ENot a)
| NNF_and l : Forall NNF l -> NNF (EAnd l)
| NNF_or l : Forall NNF l -> NNF (EOr l).

Definition Literal (x : expr) : Prop := atomic x = true \/ exists a, x = ENot a /\ atomic a = true.
Definition Conj (c : expr) : Prop := Literal c \/ exists l, c = EAnd l /\ Forall Literal l.
Definition DNF (d : expr) : Prop := Conj d \/ exists l, d = EOr l /\ Forall Conj l.

(* ------------------------------------------------------------------ Simplifier.walk_not / walk_and *)
(* Simplifier.walk_not(_, [s]) *)
Definition neg_of (s : expr) : expr :=
  match s with EBool b => EBool (negb b) | ENot x => x | _ => ENot s end.

Definition mem_expr (x : expr) (l : list expr) : bool := existsb (expr_eqb x) l.

(* new_args[s] = True on an OrderedDict: a key already present keeps its position *)
Definition od_add (s : expr) (acc : list expr) : list expr := if mem_expr s acc then acc else acc ++ [s].

(* "for s in a.args" (a an And) / the single element a otherwise *)
Definition conj_items (a : expr) : list expr := match a with EAnd l => l | _ => [a] end.

(* inner loop: None = "return self.manager.FALSE()" (the complement of s is already a key) *)
Fixpoint add_items (items acc : list expr) : option (list expr) :=
  match items with
  | [] => Some acc
  | s :: r => if mem_expr (neg_of s) acc then None else add_items r (od_add s acc)
  end.

(* "for a in args" of Simplifier.walk_and *)
Fixpoint sand_loop (args acc : list expr) : option (list expr) :=
  match args with
  | [] => Some acc
  | a :: r =>
      if is_true a then sand_loop r acc
      else if is_false a then None
      else match add_items (conj_items a) acc with
           | None => None
           | Some acc' => sand_loop r acc'
           end
  end.

(* Simplifier.walk_and(expression, args) — args are the simplified children *)
Definition simp_and (args : list expr) : expr :=
  let general :=
    match sand_loop args [] with
    | None => EBool false
    | Some [] => EBool true
    | Some [x] => x
    | Some l => EAnd l
    end in
  match args with
  | [x; y] => if expr_eqb x y then x else general
  | _ => general
  end.

(* Simplifier on the operands of a comparison that the Dnf generator produces: walk_le / walk_lt / walk_equals *)
Definition num_const (e : expr) : option Qc :=
  match e with EInt z => Some (zq z) | EReal q => Some q | _ => None end.

Definition obj_const (e : expr) : option N := match e with EObj o => Some o | _ => None end.

Definition simp_atom (e : expr) : expr :=
  match e with
  | ELe a b => match num_const a, num_const b with Some x, Some y => EBool (qc_leb x y) | _, _ => e end
  | ELt a b => match num_const a, num_const b with Some x, Some y => EBool (qc_ltb x y) | _, _ => e end
  | EEquals a b =>
      match num_const a, num_const b with
      | Some x, Some y => EBool (qc_eqb x y)
      | _, _ =>
          match obj_const a, obj_const b with
          | Some x, Some y => EBool (x =? y)%N
          | _, _ => if expr_eqb a b then EBool true else e
          end
      end
  | _ => e
  end.

(* ------------------------------------------------------------------ Dnf *)
(* itertools.product over args with every tuple already concatenated ("big_conjunction"); first argument varies slowest *)
Fixpoint product (args : list (list (list expr))) : list (list expr) :=
  match args with
  | [] => [[]]
  | d :: r => flat_map (fun c => map (fun rest => c ++ rest) (product r)) d
  end.

Section Dnf.
  Variable satom : expr -> expr.          (* Simplifier.walk on an atom *)

  (* Simplifier.walk on a literal: walk_not over the simplified atom, or the simplified atom *)
  Definition simp_lit (x : expr) : expr := match x with ENot a => neg_of (satom a) | _ => satom x end.

  (* self._simplifier.simplify(self.manager.And(big_conjunction)) *)
  Definition simp_conj (big : list expr) : expr :=
    match big with
    | [] => EBool true
    | [x] => simp_lit x
    | _ => simp_and (map simp_lit big)
    end.

  (* the "for conj_list in tuples" loop of Dnf.walk_and *)
  Fixpoint wa_loop (tuples res : list (list expr)) : list (list expr) :=
    match tuples with
    | [] => res
    | big :: r =>
        let s := simp_conj big in
        if is_true s then [[]]
        else if is_false s then wa_loop r res
        else wa_loop r (res ++ [conj_items s])
    end.

  Definition walk_and (args : list (list (list expr))) : list (list expr) := wa_loop (product args) [].

  (* DagWalker.walk with walk_and / walk_or / walk_all *)
  Fixpoint dnf_walk (e : expr) {struct e} : list (list expr) :=
    match e with
    | EAnd l => walk_and (map dnf_walk l)
    | EOr l => concat (map dnf_walk l)
    | _ => [[e]]
    end.

  (* Dnf.get_dnf_expression *)
  Definition dnf_gen (e : expr) : expr := mkOr (map mkAnd (dnf_walk (nnf e))).
End Dnf.

Definition dnf (e : expr) : expr := dnf_gen simp_atom e.
