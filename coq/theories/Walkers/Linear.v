(* Executable model of unified_planning/model/walkers/linear_checker.py : LinearChecker (after the repair of
   walk_div: the sign of the divisor is read from its type, as walk_times does for its factors).
   get_fluents(e) = walk(simplify(e)); this file models the walk (walk_default / walk_times / walk_div / walk_minus /
   walk_fluent_exp); the simplifier is the subject of C11 and is applied on the Python side before serialising.
   A result is (is_linear, positive_fluents, negative_fluents); the sets of fluent expressions are lists compared as
   sets (FNode equality is structural equality of the hash-consed nodes = expr_eqb).
   [None] = an assertion of the Python code fails / the type checker raises (never on well-typed expressions). *)
From Coq Require Import List ZArith NArith QArith Qcanon Bool.
Import ListNotations.
Require Import UPV.Core.Expr UPV.Core.Eval UPV.Core.Interp UPV.Walkers.TypeInfer.
Local Open Scope Qc_scope.

Definition fset := list expr.
Definition mem_e (x : expr) (s : fset) : bool := existsb (expr_eqb x) s.
Definition union (a b : fset) : fset := a ++ filter (fun x => negb (mem_e x a)) b.      (* a |= b *)
Definition is_empty (s : fset) : bool := match s with [] => true | _ => false end.

Definition lres := (bool * fset * fset)%type.
Definition r_lin (r : lres) : bool := fst (fst r).
Definition r_pos (r : lres) : fset := snd (fst r).
Definition r_neg (r : lres) : fset := snd r.

(* walk_default: linear iff every argument is; union of the positive / of the negative fluents *)
Definition walk_default (rs : list lres) : lres :=
  (forallb r_lin rs, fold_left union (map r_pos rs) [], fold_left union (map r_neg rs) []).

(* the sign of a fluent-free factor / divisor, read from its inferred type (both bounds must be known) *)
Inductive sign3 := SPos | SNeg | SUnk.
Definition sign_of (t : ty) : sign3 :=
  match lb t, ub t with
  | Some l, Some u => if qc_ltb 0 l then SPos else if qc_ltb u 0 then SNeg else SUnk
  | _, _ => SUnk
  end.

(* tc.get_type(arg) followed by `assert isinstance(t, _IntType) or isinstance(t, _RealType)` *)
Definition num_type (G : tenv) (a : expr) : option ty :=
  match infer_r G a with inl t => if is_num t then Some t else None | inr _ => None end.

(* ---- walk_times: the loop state ---- *)
Record tstate := {
  ts_lin : bool;            (* is_linear *)
  ts_found : bool;          (* arg_with_fluents_found *)
  ts_posity : bool;         (* positivity *)
  ts_unk : bool;            (* positivity_unknown *)
  ts_P : fset;
  ts_N : fset
}.
Definition ts_init : tstate :=
  {| ts_lin := true; ts_found := false; ts_posity := true; ts_unk := false; ts_P := []; ts_N := [] |}.

Definition times_step (G : tenv) (st : option tstate) (x : expr * lres) : option tstate :=
  match st with
  | None => None
  | Some st =>
      let a := fst x in
      let r := snd x in
      let lin := ts_lin st && r_lin r in
      if negb (is_empty (r_pos r) && is_empty (r_neg r)) then
        Some {| ts_lin := if ts_found st then false else lin; ts_found := true;
                ts_posity := ts_posity st; ts_unk := ts_unk st;
                ts_P := union (ts_P st) (r_pos r); ts_N := union (ts_N st) (r_neg r) |}
      else
        match num_type G a with
        | None => None
        | Some t =>
            match sign_of t with
            | SPos => Some {| ts_lin := lin; ts_found := ts_found st; ts_posity := ts_posity st; ts_unk := ts_unk st;
                              ts_P := ts_P st; ts_N := ts_N st |}
            | SNeg => Some {| ts_lin := lin; ts_found := ts_found st; ts_posity := negb (ts_posity st); ts_unk := ts_unk st;
                              ts_P := ts_P st; ts_N := ts_N st |}
            | SUnk => Some {| ts_lin := lin; ts_found := ts_found st; ts_posity := ts_posity st; ts_unk := true;
                              ts_P := ts_P st; ts_N := ts_N st |}
            end
        end
  end.

(* the three-way return at the end of walk_times / walk_div *)
Definition signed_out (lin unk posity : bool) (P N : fset) : lres :=
  if negb lin then (false, [], [])
  else if unk then (true, union P N, union P N)
  else if posity then (true, P, N)
  else (true, N, P).

Definition times_out (st : tstate) : lres :=
  signed_out (ts_lin st) (ts_unk st) (ts_posity st) (ts_P st) (ts_N st).

Definition walk_times (G : tenv) (args : list expr) (rs : list lres) : option lres :=
  match fold_left (times_step G) (combine args rs) (Some ts_init) with
  | Some st => Some (times_out st)
  | None => None
  end.

(* ---- walk_div (repaired) ---- *)
Definition walk_div (G : tenv) (den : expr) (rn rd : lres) : option lres :=
  let lin := r_lin rn && r_lin rd && is_empty (r_pos rd) && is_empty (r_neg rd) in
  if negb lin then Some (false, [], [])
  else
    let P := union (r_pos rn) (r_pos rd) in
    let N := union (r_neg rn) (r_neg rd) in
    match num_type G den with
    | None => None
    | Some t =>
        match sign_of t with
        | SPos => Some (signed_out true false true P N)
        | SNeg => Some (signed_out true false false P N)
        | SUnk => Some (signed_out true true true P N)
        end
    end.

(* ---- walk_minus ---- *)
Definition walk_minus (ra rb : lres) : lres :=
  if negb (r_lin ra && r_lin rb) then (false, [], [])
  else (true, union (r_pos ra) (r_neg rb), union (r_neg ra) (r_pos rb)).

(* ---- the walk ---- *)
Fixpoint lin (G : tenv) (e : expr) {struct e} : option lres :=
  let fix lins (l : list expr) : option (list lres) :=
    match l with
    | [] => Some []
    | x :: l' => match lin G x, lins l' with Some r, Some rs => Some (r :: rs) | _, _ => None end
    end in
  let dflt1 (a : expr) : option lres :=
    match lin G a with Some r => Some (walk_default [r]) | None => None end in
  let dflt2 (a b : expr) : option lres :=
    match lin G a, lin G b with Some ra, Some rb => Some (walk_default [ra; rb]) | _, _ => None end in
  let dfltn (l : list expr) : option lres :=
    match lins l with Some rs => Some (walk_default rs) | None => None end in
  match e with
  | EBool _ | EInt _ | EReal _ | EObj _ | EParam _ | EVar _ _ => Some (walk_default [])
  | EFluent f args =>
      match lins args with Some rs => Some (forallb r_lin rs, [e], []) | None => None end      (* walk_fluent_exp *)
  | ETimes l => match lins l with Some rs => walk_times G l rs | None => None end
  | EDiv a b => match lin G a, lin G b with Some ra, Some rb => walk_div G b ra rb | _, _ => None end
  | EMinus a b => match lin G a, lin G b with Some ra, Some rb => Some (walk_minus ra rb) | _, _ => None end
  | EIFun _ l | EAnd l | EOr l | EPlus l => dfltn l
  | ENot a | EExists _ a | EForall _ a | EAlways a | ESometime a | EAtMostOnce a => dflt1 a
  | EImplies a b | EIff a b | ELe a b | ELt a b | EEquals a b | ESometimeBefore a b | ESometimeAfter a b => dflt2 a b
  end.

(* LinearChecker.get_fluents on an (already simplified) expression *)
Definition get_fluents (G : tenv) (e : expr) : option lres := lin G e.

(* ---- vocabulary of the theorems ---- *)
(* arithmetic expressions over numeric constants, parameters and ground fluent expressions *)
Definition is_objc (e : expr) : bool := match e with EObj _ => true | _ => false end.
Fixpoint arith (e : expr) : bool :=
  let fix ar (l : list expr) : bool := match l with [] => true | x :: l' => arith x && ar l' end in
  match e with
  | EInt _ | EReal _ | EParam _ => true
  | EFluent _ args => forallb is_objc args
  | EPlus l | ETimes l => ar l
  | EMinus a b | EDiv a b => arith a && arith b
  | _ => false
  end.

(* a fluent occurs somewhere in the expression *)
Fixpoint has_fluent (e : expr) : bool :=
  let fix hf (l : list expr) : bool := match l with [] => false | x :: l' => has_fluent x || hf l' end in
  match e with
  | EBool _ | EInt _ | EReal _ | EObj _ | EParam _ | EVar _ _ => false
  | EFluent _ _ => true
  | EIFun _ l | EAnd l | EOr l | EPlus l | ETimes l => hf l
  | ENot a | EExists _ a | EForall _ a | EAlways a | ESometime a | EAtMostOnce a => has_fluent a
  | EImplies a b | EIff a b | ELe a b | ELt a b | EEquals a b | ESometimeBefore a b | ESometimeAfter a b
  | EMinus a b | EDiv a b => has_fluent a || has_fluent b
  end.

(* the ground fluent expression  f(o1, ..., on) *)
Definition gfluent (f : N) (os : list N) : expr := EFluent f (map EObj os).

(* two interpretations that differ at most in the value of the ground fluent f(os) *)
Record agree_except (f : N) (os : list N) (I J : interp) : Prop := {
  ae_fl : forall g vs, (g <> f \/ vs <> map VObj os) -> fl I g vs = fl J g vs;
  ae_par : forall p, par I p = par J p;
  ae_var : forall x, var I x = var J x;
  ae_ifun : forall g vs, ifun I g vs = ifun J g vs;
  ae_objs : forall t, objs I t = objs J t
}.

(* set equality of results, used by the correspondence *)
Definition subset (a b : fset) : bool := forallb (fun x => mem_e x b) a.
Definition set_eqb (a b : fset) : bool := subset a b && subset b a.
