(* C06 / C07, Layer A — DisjunctiveConditionsRemover when the DNF of the goals has SEVERAL disjuncts (the case
   Compilers/LayerA_Variants.v / C06_LA_dcr_sound / C07_LA_dcr_complete exclude).  DEFINITIONS ONLY
   (proofs: Proofs/LayerA_DcrGoal_proofs.v).

   Mirrors unified_planning/engines/compilers/disjunctive_conditions_remover.py
     DisjunctiveConditionsRemover._compile
        * every action is replaced by its DNF variants ([LayerA_Variants.dcr_table]); they are the "meaningful actions";
        * _goals_without_disjunctions_adding_new_elements: new_goal = dnf(And(goals)) is an Or, so a fresh Boolean fluent
          `dcrm_fake_goal` ([fk]) is declared with default initial value False (appended to the fluents), and for every
          disjunct one goal action is built by _create_new_action_with_given_precond from the template
          `fake_action` (no parameters, one effect fk := True): preconditions = the conjunct leaves of the simplified
          disjunct, left out when the disjunct simplifies to FALSE ([gds] = the precondition lists of the goal actions
          that were created; external: Dnf walker + Simplifier, as [pre_dnf] for the actions); new_to_old[na] = None;
          the goal of the compiled problem is the fluent expression fk;
        * afterwards every meaningful action gets the effect Effect(fk, FALSE, TRUE) appended ([add_reset];
          _add_effect_instance does not check Boolean fluents for conflicts);
        * map back = replace_action with new_to_old: a variant step becomes the original action with the same
          parameters, a goal-action step is dropped ([dcrg_back]).
   External behaviour (Section variables): [cdnf], [pre_dnf] (as in LayerA_Variants.v), [gds], the fresh names [nm]
   (variants), [gnm] (goal actions), [fk] (get_fresh_name for the fluent). *)
From Coq Require Import List ZArith NArith QArith Qcanon Bool.
Import ListNotations.
Require Import UPV.Core.Expr UPV.Core.Eval UPV.Core.Interp UPV.Planning.Problem UPV.Planning.Sem.
Require Import UPV.Compilers.Variants UPV.Compilers.LayerA_Defs UPV.Compilers.LayerA_Quant UPV.Compilers.LayerA_Variants.
Require Import UPV.Planning.Ground UPV.Compilers.LayerA_Ground UPV.Compilers.LayerA_Neg UPV.Compilers.LayerA_Uinr UPV.Compilers.LayerA_Utfr.
Require Import UPV.Compilers.LayerA_Pipe.
Local Open Scope nat_scope.

(* Effect(FluentExp(fk), b, TRUE): [Variants.reset_effect fk] = bool_effect fk false (added to every meaningful action),
   [Variants.fake_effect fk] = bool_effect fk true (the effect of the goal actions) *)
Definition bool_effect (fk : N) (b : bool) : effect :=
  {| e_fl := fk; e_args := []; e_val := EBool b; e_cond := EBool true; e_kind := KAssign; e_vars := [];
     e_isbool := true |}.

(* a._add_effect_instance(e): appended after the action's own effects *)
Definition add_eff (a : action) (e : effect) : action :=
  {| a_params := a_params a; a_pre := a_pre a; a_effs := a_effs a ++ [e] |}.

(* the expression does not mention the fluent fk *)
Fixpoint cleanf (fk : N) (e : expr) : bool :=
  match e with
  | EBool _ | EInt _ | EReal _ | EObj _ | EParam _ | EVar _ _ => true
  | EFluent f l => negb (f =? fk)%N && forallb (cleanf fk) l
  | EIFun _ l | EAnd l | EOr l | EPlus l | ETimes l => forallb (cleanf fk) l
  | ENot a | EAlways a | ESometime a | EAtMostOnce a | EExists _ a | EForall _ a => cleanf fk a
  | EImplies a b | EIff a b | EMinus a b | EDiv a b | ELe a b | ELt a b | EEquals a b
  | ESometimeBefore a b | ESometimeAfter a b => cleanf fk a && cleanf fk b
  end.

(* the effect neither reads nor writes fk *)
Definition effect_cleanf (fk : N) (e : effect) : bool :=
  negb (e_fl e =? fk)%N && forallb (cleanf fk) (e_args e) && cleanf fk (e_val e) && cleanf fk (e_cond e).

Definition action_cleanf (fk : N) (a : action) : bool :=
  forallb (cleanf fk) (a_pre a) && forallb (effect_cleanf fk) (a_effs a).

Section DCRG.
  Variable cdnf : expr -> list expr.
  Variable pre_dnf : action -> list (list expr).
  Variable nm : N -> nat -> N.          (* name of the k-th variant of the action named i *)
  Variable fk : N.                      (* the fake goal fluent *)
  Variable gnm : nat -> N.              (* name of the k-th goal action *)
  Variable gds : list (list expr).      (* preconditions of the goal actions, one list per kept disjunct of the goals *)

  Definition add_reset (a : action) : action := add_eff a (bool_effect fk false).

  (* the goal action of one disjunct: fake_action with the disjunct as precondition *)
  Definition goal_action (d : list expr) : action :=
    add_eff {| a_params := []; a_pre := d; a_effs := [] |} (bool_effect fk true).

  Definition goal_actions : list (N * action) :=
    map (fun kd => (gnm (fst kd), goal_action (snd kd))) (number_from 0 gds).

  Definition fk_decl : fdecl := {| fd_id := fk; fd_sig := []; fd_ty := FBool |}.

  Definition dcrg_actions (P : problem) : list (N * action) :=
    map (fun x => (fst (fst x), add_reset (snd x))) (dcr_table cdnf pre_dnf nm P) ++ goal_actions.

  Definition dcrg_compile (P : problem) : problem :=
    {| p_objs := p_objs P; p_ifun := p_ifun P; p_fluents := p_fluents P ++ [fk_decl];
       p_actions := dcrg_actions P; p_goals := [EFluent fk []]; p_invs := p_invs P |}.

  Definition is_goal_id (id : N) : bool := existsb (fun ia => (fst ia =? id)%N) goal_actions.

  (* replace_action(action_instance, new_to_old) *)
  Definition dcrg_back (P : problem) (x : pstep) : option pstep :=
    if is_goal_id (fst x) then None else Some (vt_back (dcr_table cdnf pre_dnf nm P) (fst x), snd x).

  (* freshness of the fake fluent (get_fresh_name), as far as the proofs need it: no variant reads or writes it, no
     state invariant / bounded-type constraint / goal disjunct mentions it.  Decidable. *)
  Definition dcrg_fresh (P : problem) : bool :=
    forallb (fun x => action_cleanf fk (snd x)) (dcr_table cdnf pre_dnf nm P) &&
    forallb (cleanf fk) (p_invs P ++ bound_invs P) &&
    forallb (forallb (cleanf fk)) gds.
End DCRG.

(* the two states agree on every fluent but fk *)
Definition agree_off (fk : N) (s s' : state) : Prop := forall f x, f <> fk -> s' f x = s f x.

(* the compiled initial state: the original one with fk = False (add_fluent(..., default_initial_value=False)) *)
Definition with_fk (fk : N) (s : state) : state :=
  fun f x => if (f =? fk)%N then Some (VBool false) else s f x.

(* ================================================================== fourth round: further stages and pipelines
   (kept in this file because the fake-goal stage needs the definitions above) *)
Definition gn_stages (smp : expr -> expr) (tuples : N -> list (list value)) (gnm : N -> nat -> N) (G1 : state -> Prop)
  (nmap : list (N * N)) (rw smp2 : expr -> expr) (P : problem) : list stage :=
  [ground_stage smp tuples gnm G1 P; ncr_stage nmap rw smp2 (ground_compile smp tuples gnm P)].

(* DisjunctiveConditionsRemover with a disjunctive goal as a stage: ONE auxiliary step (the goal action).  The relation:
   the states agree off fk, the source state lies in G and satisfies the invariants (the goal action may be applied in
   the initial state itself), and fk is true only where the original goals hold (initially: fk = false) *)
Definition dcrg_rel (fk : N) (G : state -> Prop) (P : problem) (s s' : state) : Prop :=
  agree_off fk s s' /\ G s /\ invariants_ok false P s = true /\
  (s' fk [] = Some (VBool true) -> goals_hold false P s = true).

Definition dcrg_stage (cdnf : expr -> list expr) (pre_dnf : action -> list (list expr)) (nm : N -> nat -> N) (fk : N)
  (gnm : nat -> N) (gds : list (list expr)) (G : state -> Prop) (P : problem) : stage :=
  {| st_src := P; st_dst := dcrg_compile cdnf pre_dnf nm fk gnm gds P;
     st_back := dcrg_back cdnf pre_dnf nm fk gnm gds P; st_aux := 1;
     st_rel := dcrg_rel fk G P; st_okS := fun _ => True; st_okD := fun _ => True |}.

(* no effect of the original problem targets fk (decidable; part of "fk is fresh") *)
Definition orig_no_fk (fk : N) (P : problem) : bool :=
  forallb (fun ia => forallb (fun e => negb (e_fl e =? fk)%N) (a_effs (snd ia))) (p_actions P).

(* UndefinedInitialNumericRemover: names and parameters kept; the compiled state holds the companions
   is_value_defined_f and a default where the original fluent has no value ([uinr_rel]) *)
Definition uinr_stage (umap : list (N * N)) (P : problem) : stage :=
  {| st_src := P; st_dst := uinr_compile umap P; st_back := fun x => Some x; st_aux := 0;
     st_rel := uinr_rel umap; st_okS := fun _ => True; st_okD := fun _ => True |}.

(* no effect of the original problem targets a companion fluent (they are fresh names; decidable) *)
Definition orig_no_comp (umap : list (N * N)) (P : problem) : bool :=
  forallb (fun ia => forallb (fun e => negb (is_ucomp umap (e_fl e))) (a_effs (snd ia))) (p_actions P).

(* UsertypeFluentsRemover: names and parameters kept; the compiled state encodes o(x) = c as o(x, u) = (u == c)
   ([utfr_rel]); G = the set of states of the hypotheses effects_defined / one_value / closed *)
Definition utfr_stage (tr smp : expr -> expr) (G : state -> Prop) (Q : pstep -> Prop) (P : problem) : stage :=
  {| st_src := P; st_dst := utfr_compile tr smp P; st_back := fun x => Some x; st_aux := 0;
     st_rel := fun s s' => utfr_rel P s s' /\ G s; st_okS := Q; st_okD := Q |}.
(* Q: any condition on the steps of the (common) plan that a LATER stage of a pipeline asks for; the plan is its own
   counterpart, so the stage hands it on unchanged *)


(* CompilersPipeline([UsertypeFluentsRemover(), QuantifiersRemover(), DisjunctiveConditionsRemover()]) with a disjunctive
   goal — compcheck "pipeline:usertype+quantifiers+disjunctive" *)
Definition uqd_stages (tr smp1 : expr -> expr) (G0 : state -> Prop) (smp : expr -> expr)
  (cdnf : expr -> list expr) (pre_dnf : action -> list (list expr)) (nm : N -> nat -> N) (fk : N) (gnm : nat -> N)
  (gds : list (list expr)) (G2 : state -> Prop) (P : problem) : list stage :=
  [utfr_stage tr smp1 G0 (step_targets_total (utfr_compile tr smp1 P)) P;
   quant_stage smp (utfr_compile tr smp1 P);
   dcrg_stage cdnf pre_dnf nm fk gnm gds G2 (quant_compile smp (utfr_compile tr smp1 P))].
Definition uqd_dst (tr smp1 smp : expr -> expr) (cdnf : expr -> list expr) (pre_dnf : action -> list (list expr))
  (nm : N -> nat -> N) (fk : N) (gnm : nat -> N) (gds : list (list expr)) (P : problem) : problem :=
  dcrg_compile cdnf pre_dnf nm fk gnm gds (quant_compile smp (utfr_compile tr smp1 P)).
