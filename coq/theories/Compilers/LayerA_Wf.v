(* C08, Layer A — well-formedness of a problem of the Layer A record (Planning/Problem.problem).  DEFINITIONS ONLY
   (proofs: Proofs/LayerA_Wf_proofs.v, statements: Props/C08_la.v).

   [wf_problem] is the counterpart, over [Planning/Problem.problem], of C08's by-name checker [FreshNames.wf_np]
   (the clauses of harness/props/c08.py: nproblem / py_wf that are expressible on this record):
     wf_np clause 1  unique names           -> unique action ids, unique fluent ids, unique type ids (names of different
                                               categories live in different number spaces here: harness/ser.py Names)
     wf_np clause 8  fluent signatures      -> every parameter type of a fluent (and an object-valued fluent's type) is declared
                                               (parameter NAMES of fluents are not part of [fdecl])
     wf_np clause 16 an action              -> unique parameter ids; every fluent application (with its arity), object,
                                               variable / binder type and parameter mentioned by the preconditions and the
                                               effects is declared; effect targets declared with their arity
     wf_np clause 32 goals, constraints     -> the same for goals and state invariants with NO parameter in scope
   and, beyond wf_np (the task's "no free variables"):
     every variable occurrence is bound by an enclosing quantifier or by the effect's forall list, with the binder's type.
   Not expressible here (stay with wf_np on the sampled instances): the type hierarchy (father types), the declared type
   of an object, initial values, metrics, action references of metrics / map-back tables, parameter types of actions.

   Scoping of variables: [B] is the list of binders in scope, innermost first; an occurrence [EVar v ty] is well formed
   when the FIRST binder of id v in [B] carries the type ty (ids stand for Variable objects = name + type). *)
From Coq Require Import List ZArith NArith QArith Qcanon Bool.
Import ListNotations.
Require Import UPV.Core.Expr UPV.Core.Eval UPV.Core.Interp UPV.Planning.Problem UPV.Planning.Sem.
Require Import UPV.Compilers.Variants UPV.Compilers.LayerA_Defs UPV.Compilers.LayerA_Quant.

(* what is declared: fluent symbol with its number of parameters, objects, user types *)
Record denv := { d_fl : N -> nat -> bool; d_obj : N -> bool; d_ty : N -> bool }.

Fixpoint wfx (D : denv) (ps : list N) (B : list (N * N)) (e : expr) {struct e} : bool :=
  match e with
  | EBool _ | EInt _ | EReal _ => true
  | EObj o => d_obj D o
  | EParam p => memN p ps
  | EVar v ty => d_ty D ty && match lookupN v B with Some t => (t =? ty)%N | None => false end
  | EFluent f l => d_fl D f (List.length l) && forallb (wfx D ps B) l
  | EIFun _ l | EAnd l | EOr l | EPlus l | ETimes l => forallb (wfx D ps B) l
  | ENot a | EAlways a | ESometime a | EAtMostOnce a => wfx D ps B a
  | EExists vs a | EForall vs a => forallb (fun vt => d_ty D (snd vt)) vs && wfx D ps (vs ++ B) a
  | EImplies a b | EIff a b | EMinus a b | EDiv a b | ELe a b | ELt a b | EEquals a b
  | ESometimeBefore a b | ESometimeAfter a b => wfx D ps B a && wfx D ps B b
  end.

(* an effect: declared target (arity = number of target arguments), declared forall types, and target arguments, value,
   condition well formed with the action's parameters and the effect's forall variables in scope *)
Definition wf_effect (D : denv) (ps : list N) (e : effect) : bool :=
  d_fl D (e_fl e) (List.length (e_args e)) &&
  forallb (fun vt => d_ty D (snd vt)) (e_vars e) &&
  forallb (wfx D ps (e_vars e)) (e_args e) && wfx D ps (e_vars e) (e_val e) && wfx D ps (e_vars e) (e_cond e).

Definition wf_action (D : denv) (a : action) : bool :=
  nodupN (a_params a) && forallb (wfx D (a_params a) []) (a_pre a) && forallb (wf_effect D (a_params a)) (a_effs a).

(* ---- the declarations of a problem *)
Definition decl_fl (fls : list fdecl) (f : N) (n : nat) : bool :=
  existsb (fun fd => (fd_id fd =? f)%N && Nat.eqb (List.length (fd_sig fd)) n) fls.
Definition decl_obj (objs : list (N * list N)) (o : N) : bool := existsb (fun tl => memN o (snd tl)) objs.
Definition decl_ty (objs : list (N * list N)) (t : N) : bool := memN t (map fst objs).

Definition denv_of (P : problem) : denv :=
  {| d_fl := decl_fl (p_fluents P); d_obj := decl_obj (p_objs P); d_ty := decl_ty (p_objs P) |}.

Definition wf_fdecl (D : denv) (fd : fdecl) : bool :=
  forallb (d_ty D) (fd_sig fd) && match fd_ty fd with FObj t => d_ty D t | _ => true end.

(* the seven clauses, separately (the correspondence reports which one fails) *)
Definition wf_ids (P : problem) : bool :=
  nodupN (map fst (p_actions P)) && nodupN (map fd_id (p_fluents P)) && nodupN (map fst (p_objs P)).
Definition wf_fluents (P : problem) : bool := forallb (wf_fdecl (denv_of P)) (p_fluents P).
Definition wf_actions (P : problem) : bool := forallb (fun ia => wf_action (denv_of P) (snd ia)) (p_actions P).
Definition wf_top (P : problem) : bool :=
  forallb (wfx (denv_of P) [] []) (p_goals P) && forallb (wfx (denv_of P) [] []) (p_invs P).

Definition wf_problem (P : problem) : bool := wf_ids P && wf_fluents P && wf_actions P && wf_top P.

(* which clause fails (0 = well formed), numbered like Corr_C08.wf_code where a clause corresponds:
   1 duplicate action / fluent / type id, 8 a fluent signature, 16 an action, 32 goals / state invariants *)
Definition wf_la_code (P : problem) : N :=
  ((if wf_ids P then 0 else 1) + (if wf_fluents P then 0 else 8) + (if wf_actions P then 0 else 16) +
   (if wf_top P then 0 else 32))%N.

(* the part of wf_problem that wf_np does NOT check: bound variables.  [wfx] with every variable check switched off is
   obtained by erasing the binder discipline: [scoped] = every variable occurrence has a binder of its type in scope *)
Fixpoint scoped (B : list (N * N)) (e : expr) {struct e} : bool :=
  match e with
  | EBool _ | EInt _ | EReal _ | EObj _ | EParam _ => true
  | EVar v ty => match lookupN v B with Some t => (t =? ty)%N | None => false end
  | EFluent _ l | EIFun _ l | EAnd l | EOr l | EPlus l | ETimes l => forallb (scoped B) l
  | ENot a | EAlways a | ESometime a | EAtMostOnce a => scoped B a
  | EExists vs a | EForall vs a => scoped (vs ++ B) a
  | EImplies a b | EIff a b | EMinus a b | EDiv a b | ELe a b | ELt a b | EEquals a b
  | ESometimeBefore a b | ESometimeAfter a b => scoped B a && scoped B b
  end.

(* ------------------------------------------------------------------ the shapes the compilers promise *)
(* a predicate on every condition of the problem: preconditions, effect conditions and values, goals, invariants *)
Definition conds_all (q : expr -> bool) (P : problem) : bool :=
  forallb (fun ia => forallb q (a_pre (snd ia)) &&
                     forallb (fun e => q (e_cond e) && q (e_val e)) (a_effs (snd ia))) (p_actions P) &&
  forallb q (p_goals P) && forallb q (p_invs P).

(* QuantifiersRemover: no Exists / Forall in any condition or effect value, no forall effect *)
Definition no_forall_effects (P : problem) : bool :=
  forallb (fun ia => forallb (fun e => is_nil (e_vars e)) (a_effs (snd ia))) (p_actions P).
Definition quantifier_free (P : problem) : bool := conds_all qf P && no_forall_effects P.

(* ConditionalEffectsRemover: every effect is unconditional *)
Definition no_cond_effects (P : problem) : bool :=
  forallb (fun ia => forallb is_uncond (a_effs (snd ia))) (p_actions P).

(* StateInvariantsRemover: no state invariant;  BoundedTypesRemover: no bounded numeric fluent *)
Definition no_invariants (P : problem) : bool := is_nil (p_invs P).
Definition no_bounded (P : problem) : bool :=
  forallb (fun fd => match fd_ty fd with FNum None None => true | FNum _ _ => false | _ => true end) (p_fluents P).

(* Grounder: no action has parameters (with wf_problem: no parameter occurs anywhere) *)
Definition ground_problem (P : problem) : bool := forallb (fun ia => is_nil (a_params (snd ia))) (p_actions P).
Fixpoint param_free (e : expr) {struct e} : bool :=
  match e with
  | EParam _ => false
  | EBool _ | EInt _ | EReal _ | EObj _ | EVar _ _ => true
  | EFluent _ l | EIFun _ l | EAnd l | EOr l | EPlus l | ETimes l => forallb param_free l
  | ENot a | EAlways a | ESometime a | EAtMostOnce a | EExists _ a | EForall _ a => param_free a
  | EImplies a b | EIff a b | EMinus a b | EDiv a b | ELe a b | ELt a b | EEquals a b
  | ESometimeBefore a b | ESometimeAfter a b => param_free a && param_free b
  end.

(* NegativeConditionsRemover: no Not in the conditions (preconditions, conditions of conditional effects, goals,
   invariants); effect VALUES are not rewritten by the compiler *)
Fixpoint neg_free (e : expr) {struct e} : bool :=
  match e with
  | ENot _ => false
  | EBool _ | EInt _ | EReal _ | EObj _ | EParam _ | EVar _ _ => true
  | EFluent _ l | EIFun _ l | EAnd l | EOr l | EPlus l | ETimes l => forallb neg_free l
  | EAlways a | ESometime a | EAtMostOnce a | EExists _ a | EForall _ a => neg_free a
  | EImplies a b | EIff a b | EMinus a b | EDiv a b | ELe a b | ELt a b | EEquals a b
  | ESometimeBefore a b | ESometimeAfter a b => neg_free a && neg_free b
  end.
Definition negation_free (P : problem) : bool :=
  forallb (fun ia => forallb neg_free (a_pre (snd ia)) &&
                     forallb (fun e => neg_free (e_cond e)) (a_effs (snd ia))) (p_actions P) &&
  forallb neg_free (p_goals P) && forallb neg_free (p_invs P).

(* DisjunctiveConditionsRemover: no precondition is a disjunction, no effect condition is one (literal-level facts are
   the DNF walker's: C12) *)
Definition is_or (e : expr) : bool := match e with EOr _ => true | _ => false end.

(* ------------------------------------------------------------------ hypotheses about external behaviour *)
(* the simplifier (FNode.simplify / Simplifier(env, problem)) introduces nothing undeclared: no new fluent application,
   object, parameter, free variable.  C11 proves "no new free variables" for the simplifier model; constants it folds a
   static fluent to are declared objects / numbers. *)
Definition keeps_wf (D : denv) (f : expr -> expr) : Prop :=
  forall ps B e, wfx D ps B e = true -> wfx D ps B (f e) = true.
(* ... and no quantifier / no negation where there was none *)
Definition keeps (q : expr -> bool) (f : expr -> expr) : Prop := forall e, q e = true -> q (f e) = true.

(* the objects listed for a type are declared objects (they are: p_objs lists them) *)
Definition objs_declared (D : denv) (ob : N -> list N) : Prop := forall t o, In o (ob t) -> d_obj D o = true.
