(* C06 / C07, Layer A — TrajectoryConstraintsRemover.  DEFINITIONS ONLY (proofs: Proofs/LayerA_Tcr_proofs.v).

   Mirrors unified_planning/engines/compilers/trajectory_constraints_remover.py AFTER its first step (the problem has
   been grounded by Grounder and the constraints went through ExpressionQuantifiersRemover): the input is a GROUND
   problem (actions without parameters, effects without forall variables, every effect target a fluent applied to
   object constants) and the list of its trajectory constraints.
     * [gamma] / [gamma_subst] / [regress]    = _gamma / _gamma_substitution / _regression;
     * [tcr_C]                                = the loop that flattens top-level Ands and handles Boolean constants;
     * [relevant_cs]                          = _build_relevancy_dict + _get_relevant_constraints;
     * [h_always h_amo h_sb h_sometime h_sa]  = _manage_*_compilation, [add_cond_eff] = _add_cond_eff;
     * [tcr_action]                           = the body of the loop over new_problem.actions;
     * [tcr_atoms] / [tcr_init_true] / [tcr_refused] = _get_monitoring_atoms / _evaluate_constraint;
     * [tcr_compile]                          = _compile (fluents, actions, goals; trajectory constraints removed).
   External behaviour (Section variables): FNode.simplify [smp], substitution of the initial values [sub0]
   (expr.substitute(problem.initial_values)), the fluent id of the monitoring atom named "<type>-<k>" [mon].

   The second half defines the ABSTRACT MONITOR the compilation implements (one Boolean per constraint, a check and an
   update per step); Proofs/LayerA_Tcr_proofs.v proves that it decides SimCheck.traj_holds. *)
From Coq Require Import List ZArith NArith QArith Qcanon Bool.
Import ListNotations.
Require Import UPV.Core.Expr UPV.Core.Eval UPV.Core.Interp UPV.Planning.Problem UPV.Planning.Sem.
Require Import UPV.Compilers.Variants UPV.Compilers.LayerA_Defs UPV.Compilers.LayerA_Quant.
Require Import UPV.Compilers.SimCheck UPV.Compilers.LayerA_DcrGoal.

(* ------------------------------------------------------------------ regression *)
(* `literal == eff.fluent` (hash-consed FNodes: syntactic equality of the fluent expression) *)
Definition same_fluent (f : N) (args : list expr) (e : effect) : bool :=
  (e_fl e =? f)%N && list_expr_eqb (e_args e) args.

(* eff.value.is_bool_constant() *)
Definition bconst (e : expr) : option bool := match e with EBool b => Some b | _ => None end.

(* _gamma(env, literal, action) with literal = f(args) when [pos] and Not(f(args)) otherwise; [acc] = `disjunction` *)
Fixpoint gamma_go (f : N) (args : list expr) (pos : bool) (effs : list effect) (acc : list expr) : expr :=
  match effs with
  | [] => mkOr acc                                          (* `if not disjunction: return FALSE` = Or() *)
  | e :: r =>
      if negb (e_isbool e) then gamma_go f args pos r acc   (* not eff.fluent.type.is_bool_type(): continue *)
      else match bconst (e_val e) with
           | Some b =>
               if same_fluent f args e && Bool.eqb b pos
               then (if is_true (e_cond e) then EBool true else gamma_go f args pos r (acc ++ [e_cond e]))
               else gamma_go f args pos r acc
           | None =>                                        (* f := g: And(cond, value) / And(cond, Not(value)) *)
               if same_fluent f args e
               then gamma_go f args pos r (acc ++ [mkAnd [e_cond e; if pos then e_val e else mkNot (e_val e)]])
               else gamma_go f args pos r acc
           end
  end.

Definition gamma (f : N) (args : list expr) (pos : bool) (effs : list effect) : expr := gamma_go f args pos effs [].

(* _gamma_substitution: Or(gamma(l), And(l, Not(gamma(Not l)))) *)
Definition gamma_subst (f : N) (args : list expr) (effs : list effect) : expr :=
  mkOr [gamma f args true effs; mkAnd [EFluent f args; mkNot (gamma f args false effs)]].

(* _regression; anything but constants / fluents / And / Or / Not raises UPUsageError ([gform] = it does not raise) *)
Fixpoint regress (effs : list effect) (phi : expr) : expr :=
  match phi with
  | EBool _ => phi
  | EFluent f args => gamma_subst f args effs
  | EOr l => mkOr (map (regress effs) l)
  | EAnd l => mkAnd (map (regress effs) l)
  | ENot x => mkNot (regress effs x)
  | _ => phi
  end.

Definition is_obj (e : expr) : bool := match e with EObj _ => true | _ => false end.
Definition oargs (l : list expr) : bool := forallb is_obj l.
Definition vals_of (l : list expr) : list value := map (fun x => match x with EObj o => VObj o | _ => VObj 0%N end) l.

(* the fragment of state formulas: propositional combinations of fluents applied to object constants *)
Fixpoint gform (e : expr) : bool :=
  match e with
  | EBool _ => true
  | EFluent _ args => oargs args
  | EAnd l | EOr l => forallb gform l
  | ENot a => gform a
  | _ => false
  end.

(* every fluent of the formula has a Boolean value in the state *)
Fixpoint gdef (s : state) (e : expr) : bool :=
  match e with
  | EFluent f args => match s f (vals_of args) with Some (VBool _) => true | _ => false end
  | EAnd l | EOr l => forallb (gdef s) l
  | ENot a => gdef s a
  | _ => true
  end.

(* every fluent of the formula is declared Boolean *)
Fixpoint gbool (P : problem) (e : expr) : bool :=
  match e with
  | EFluent f _ => is_bool_fluent P f
  | EAnd l | EOr l => forallb (gbool P) l
  | ENot a => gbool P a
  | _ => true
  end.

(* ground effects: no forall variables, target arguments object constants, Boolean targets are assigned, and
   [e_isbool] (= eff.fluent.type.is_bool_type()) agrees with the declaration *)
Definition geffect (P : problem) (e : effect) : bool :=
  match e_vars e with [] => true | _ => false end && oargs (e_args e) &&
  Bool.eqb (e_isbool e) (is_bool_fluent P (e_fl e)) && (negb (e_isbool e) || is_kassign e).

Definition gaction (P : problem) (a : action) : bool :=
  match a_params a with [] => true | _ => false end && forallb (geffect P) (a_effs a).

Definition gproblem (P : problem) : bool := forallb (fun ia => gaction P (snd ia)) (p_actions P).

(* the expression evaluates to a Boolean *)
Definition isB (I : interp) (e : expr) : bool :=
  match eval false e I with Some (VBool _) => true | _ => false end.

(* in state s every effect condition of the action, and the value of every effect on a Boolean fluent, evaluates to a
   Boolean.  (An applicable action only guarantees this for the values of the effects that FIRE: the regression
   And(cond, value) evaluates the value also when cond is false.) *)
Definition reg_ok (P : problem) (s : state) (a : action) : bool :=
  forallb (fun e => isB (mk_interp P s []) (e_cond e) && (negb (e_isbool e) || isB (mk_interp P s []) (e_val e)))
          (a_effs a).

(* ------------------------------------------------------------------ the compiler *)
Definition is_always (c : expr) : bool := match c with EAlways _ => true | _ => false end.
Definition is_landmark (c : expr) : bool := match c with ESometime _ | ESometimeAfter _ _ => true | _ => false end.

(* env.free_vars_extractor.get: the fluent expressions occurring in an expression *)
Fixpoint fluent_exps (e : expr) : list (N * list expr) :=
  match e with
  | EBool _ | EInt _ | EReal _ | EObj _ | EParam _ | EVar _ _ => []
  | EFluent f l => (f, l) :: flat_map fluent_exps l
  | EIFun _ l | EAnd l | EOr l | EPlus l | ETimes l => flat_map fluent_exps l
  | ENot a | EAlways a | ESometime a | EAtMostOnce a | EExists _ a | EForall _ a => fluent_exps a
  | EImplies a b | EIff a b | EMinus a b | EDiv a b | ELe a b | ELt a b | EEquals a b
  | ESometimeBefore a b | ESometimeAfter a b => fluent_exps a ++ fluent_exps b
  end.

Definition mentions (c : expr) (e : effect) : bool :=
  existsb (fun fa => (fst fa =? e_fl e)%N && list_expr_eqb (snd fa) (e_args e)) (fluent_exps c).

Fixpoint dedup_acc (acc l : list expr) : list expr :=
  match l with
  | [] => acc
  | x :: r => if existsb (expr_eqb x) acc then dedup_acc acc r else dedup_acc (acc ++ [x]) r
  end.

(* the first loop of _compile: top-level Ands are split, TRUE is dropped, FALSE raises (None) *)
Definition flat_cs (cs : list expr) : list expr := flat_map (fun c => match c with EAnd l => l | _ => [c] end) cs.
Definition tcr_C (cs : list expr) : option (list expr) :=
  if existsb is_false (flat_cs cs) then None else Some (filter (fun c => negb (is_true c)) (flat_cs cs)).

Section Tcr.
  Variable smp : expr -> expr.          (* FNode.simplify() *)
  Variable sub0 : expr -> expr.         (* FNode.substitute(problem.initial_values) *)
  Variable mon : nat -> N.              (* the fluent "<type>-<k>" created for the k-th constraint that is not an always *)
  Variable C : list expr.               (* the list C of _compile *)

  (* _get_relevant_constraints(a, _build_relevancy_dict(env, C)) *)
  Definition relevant_cs (a : action) : list expr :=
    dedup_acc [] (flat_map (fun e => filter (fun c => mentions c e) C) (a_effs a)).

  (* self._monitoring_atom_dict: constraint -> counter of its atom (a later identical constraint overwrites) *)
  Fixpoint atoms_from (k : nat) (cs : list expr) : list (expr * nat) :=
    match cs with
    | [] => []
    | c :: r => if is_always c then atoms_from k r else (c, k) :: atoms_from (S k) r
    end.
  Definition atom_idx (c : expr) : nat :=
    match find (fun p => expr_eqb (fst p) c) (rev (atoms_from 0 C)) with Some p => snd p | None => 0 end.
  Definition m_atom (c : expr) : expr := EFluent (mon (atom_idx c)) [].

  Definition meff (m : N) (v : bool) (cond : expr) : effect :=
    {| e_fl := m; e_args := []; e_val := EBool v; e_cond := cond; e_kind := KAssign; e_vars := []; e_isbool := true |}.

  (* _add_cond_eff(env, E, cond, m_atom or Not(m_atom)) *)
  Definition add_cond_eff (E : list effect) (cond : expr) (m : N) (v : bool) : list effect :=
    if is_false (smp cond) then E else E ++ [meff m v cond].

  Definition R (a : action) (phi : expr) : expr := smp (regress (a_effs a) phi).

  (* handlers: (precondition to add, new list E) *)
  Definition h_always (a : action) (phi : expr) (E : list effect) : option expr * list effect :=
    if expr_eqb (R a phi) phi then (None, E) else (Some (R a phi), E).

  Definition h_amo (a : action) (phi : expr) (k : nat) (E : list effect) : option expr * list effect :=
    if expr_eqb (R a phi) phi then (None, E)
    else (Some (smp (mkOr [mkNot (R a phi); mkNot (EFluent (mon k) []); phi])), add_cond_eff E (R a phi) (mon k) true).

  Definition h_sb (a : action) (phi psi : expr) (k : nat) (E : list effect) : option expr * list effect :=
    (if expr_eqb (R a phi) phi then None else Some (smp (mkOr [mkNot (R a phi); EFluent (mon k) []])),
     if expr_eqb (R a psi) psi then E else add_cond_eff E (R a psi) (mon k) true).

  Definition h_sometime (a : action) (phi : expr) (k : nat) (E : list effect) : option expr * list effect :=
    (None, if expr_eqb (R a phi) phi then E else add_cond_eff E (R a phi) (mon k) true).

  Definition h_sa (a : action) (phi psi : expr) (k : nat) (E : list effect) : option expr * list effect :=
    let E1 := if expr_eqb phi (R a phi) && expr_eqb psi (R a psi) then E
              else add_cond_eff E (smp (mkAnd [R a phi; mkNot (R a psi)])) (mon k) false in
    (None, if expr_eqb psi (R a psi) then E1 else add_cond_eff E1 (R a psi) (mon k) true).

  Definition handle (a : action) (c : expr) (E : list effect) : option expr * list effect :=
    match c with
    | EAlways phi => h_always a phi E
    | EAtMostOnce phi => h_amo a phi (atom_idx c) E
    | ESometimeBefore phi psi => h_sb a phi psi (atom_idx c) E
    | ESometime phi => h_sometime a phi (atom_idx c) E
    | ESometimeAfter phi psi => h_sa a phi psi (atom_idx c) E
    | _ => (None, E)                                        (* raise Exception: outside the fragment *)
    end.

  (* the loop over the relevant constraints: preconditions are added one by one (add_precondition), effects collected *)
  Fixpoint handle_all (a : action) (cs : list expr) (pres : list expr) (E : list effect) : list expr * list effect :=
    match cs with
    | [] => (pres, E)
    | c :: r =>
        let '(p, E') := handle a c E in
        handle_all a r (match p with Some x => add_pre pres x | None => pres end) E'
    end.

  (* None = the action is left out (`FALSE in a.preconditions`) *)
  Definition tcr_action (a : action) : option action :=
    let '(pres, E) := handle_all a (relevant_cs a) (a_pre a) [] in
    if existsb is_false pres then None
    else Some {| a_params := a_params a; a_pre := pres; a_effs := a_effs a ++ E |}.

  (* _evaluate_constraint: the expression whose truth decides the initial value of the monitoring atom *)
  Definition init_expr (c : expr) : expr :=
    match c with
    | ESometime phi => smp (sub0 phi)
    | ESometimeAfter phi psi => smp (mkOr [sub0 psi; mkNot (sub0 phi)])
    | ESometimeBefore phi psi => smp (sub0 psi)
    | EAtMostOnce phi => smp (sub0 phi)
    | _ => EBool false
    end.

  (* _get_monitoring_atoms raises UPProblemDefinitionError *)
  Definition refused (c : expr) : bool :=
    match c with
    | EAlways phi => is_false (smp (sub0 phi))
    | ESometimeBefore phi _ => is_true (smp (sub0 phi))
    | _ => false
    end.

  Definition n_atoms : nat := length (atoms_from 0 C).
  Definition mon_fluents : list fdecl :=
    map (fun k => {| fd_id := mon k; fd_sig := []; fd_ty := FBool |}) (seq 0 n_atoms).
  (* I_prime: the atoms set to true initially (all others get the default false) *)
  Definition init_true : list N :=
    flat_map (fun p => if is_true (init_expr (fst p)) then [mon (snd p)] else []) (atoms_from 0 C).

  Definition landmark_goal : expr := mkAnd (map m_atom (filter is_landmark C)).

  Definition tcr_compile (P : problem) : option problem :=
    if existsb refused C then None
    else Some {| p_objs := p_objs P; p_ifun := p_ifun P; p_fluents := p_fluents P ++ mon_fluents;
                 p_actions := map_actions tcr_action (p_actions P);
                 p_goals := add_goals [smp (mkAnd (p_goals P ++ [landmark_goal]))];
                 p_invs := p_invs P |}.

  (* the initial state of the compiled problem *)
  Definition tcr_init (s0 : state) : state :=
    fun f args => if existsb (fun k => (mon k =? f)%N) (seq 0 n_atoms)
                  then Some (VBool (existsb (N.eqb f) init_true))
                  else s0 f args.
End Tcr.

(* ------------------------------------------------------------------ the abstract monitor *)
(* One Boolean [mbit] per constraint (the monitoring atom), a per-step check [chk] (the added precondition, read in
   the state BEFORE the step about the state AFTER it) and an update [upd] (the added conditional effects). *)
Section AbstractMonitor.
  Context {A : Type}.
  Variable sat : A -> expr -> bool.

  (* value of the monitoring atom in the initial state / may the problem be refused *)
  Definition mbit0 (c : expr) (s : A) : bool :=
    match c with
    | ESometime phi => sat s phi
    | ESometimeAfter phi psi => sat s psi || negb (sat s phi)
    | ESometimeBefore phi psi => sat s psi
    | EAtMostOnce phi => sat s phi
    | _ => false
    end.
  Definition safe0 (c : expr) (s : A) : bool :=
    match c with
    | EAlways phi => sat s phi
    | ESometimeBefore phi _ => negb (sat s phi)
    | ESometime _ | ESometimeAfter _ _ | EAtMostOnce _ => true
    | EBool true => true
    | _ => false
    end.
  (* m = atom before the step, s = state before, t = state after *)
  Definition chk (c : expr) (m : bool) (s t : A) : bool :=
    match c with
    | EAlways phi => sat t phi
    | ESometimeBefore phi _ => negb (sat t phi) || m
    | EAtMostOnce phi => negb (sat t phi) || negb m || sat s phi
    | _ => true
    end.
  Definition upd (c : expr) (m : bool) (t : A) : bool :=
    match c with
    | ESometime phi => m || sat t phi
    | ESometimeAfter phi psi => if sat t psi then true else if sat t phi then false else m
    | ESometimeBefore phi psi => m || sat t psi
    | EAtMostOnce phi => m || sat t phi
    | _ => m
    end.

  (* run the monitor over the states after the initial one: (all checks passed, current atom) *)
  Fixpoint mrun (c : expr) (ok m : bool) (s : A) (l : list A) : bool * bool :=
    match l with
    | [] => (ok, m)
    | t :: r => mrun c (ok && chk c m s t) (upd c m t) t r
    end.

  (* the verdict of the compiled problem on a state sequence: not refused, every check passed, landmark atoms true *)
  Definition mverdict (c : expr) (sts : list A) : bool :=
    match sts with
    | [] => match c with EBool true | EAlways _ | EAtMostOnce _ | ESometimeBefore _ _ | ESometimeAfter _ _ => true | _ => false end
    | s :: r => let '(ok, m) := mrun c (safe0 c s) (mbit0 c s) s r in ok && (if is_landmark c then m else true)
    end.
End AbstractMonitor.

(* ------------------------------------------------------------------ the specification for `always` constraints *)
(* every always-constraint body holds in the state *)
Definition AH (P : problem) (C : list expr) (s : state) : bool :=
  forallb (fun c => match c with EAlways phi => holds false (mk_interp P s []) phi | _ => true end) C.

(* run the ORIGINAL problem and stop as soon as a visited state violates an always body *)
Fixpoint run_ah (P : problem) (C : list expr) (s : state) (pi : list (N * list value)) : option state :=
  match pi with
  | [] => Some s
  | (aid, args) :: r =>
      match lookup_action P aid with
      | None => None
      | Some a => match spec_step false P s a args with
                  | Some t => if AH P C t then run_ah P C t r else None
                  | None => None
                  end
      end
  end.

(* the plan is executable in the original problem, every state it visits after the first satisfies every always body,
   the goals hold at the end *)
Definition always_valid (P : problem) (C : list expr) (s0 : state) (pi : list (N * list value)) : bool :=
  match run_ah P C s0 pi with Some t => goals_hold false P t | None => false end.

(* all constraints are `always phi` with phi in the regression fragment *)
Definition always_only (P : problem) (C : list expr) : bool :=
  forallb (fun c => match c with EAlways phi => gform phi && gbool P phi | _ => false end) C.

(* ------------------------------------------------------------------ the specification for one `sometime` constraint *)
(* phi holds in s or in some state the plan visits afterwards (in the original problem) *)
Fixpoint sometime_seen (P : problem) (phi : expr) (s : state) (pi : list (N * list value)) : bool :=
  holds false (mk_interp P s []) phi ||
  match pi with
  | [] => false
  | (aid, args) :: r =>
      match lookup_action P aid with
      | Some a => match spec_step false P s a args with Some t => sometime_seen P phi t r | None => false end
      | None => false
      end
  end.

(* freshness of the monitoring fluent fk (the compiler takes the name "hold-0" without looking): no action, invariant,
   bounded-type constraint or goal of the problem, nor the constraint formula or a simplified regression of it, mentions
   fk.  Decidable. *)
Definition tcr_fresh1 (smp : expr -> expr) (fk : N) (P : problem) (phi : expr) : bool :=
  forallb (fun ia => action_cleanf fk (snd ia) && cleanf fk (R smp (snd ia) phi)) (p_actions P) &&
  forallb (cleanf fk) (p_invs P ++ bound_invs P) && forallb (cleanf fk) (p_goals P) && cleanf fk phi.

(* ------------------------------------------------------------------ the specification for one `at-most-once` constraint *)
(* [m] = phi held in some state up to s (s included).  Every step s -> t of the plan (in the original problem) passes the
   at-most-once check: phi does not hold in t, or it never held before, or it still holds in s (t continues the one
   interval).  With m = "phi holds in s0" this is SimCheck.mon_amo on the visited states (mrun_amo / mverdict_spec). *)
Fixpoint amo_chk (P : problem) (phi : expr) (m : bool) (s : state) (pi : list (N * list value)) : bool :=
  match pi with
  | [] => true
  | (aid, args) :: r =>
      match lookup_action P aid with
      | Some a =>
          match spec_step false P s a args with
          | Some t =>
              (negb (holds false (mk_interp P t []) phi) || negb m || holds false (mk_interp P s []) phi) &&
              amo_chk P phi (m || holds false (mk_interp P t []) phi) t r
          | None => true
          end
      | None => true
      end
  end.

(* ------------------------------------------------------------------ the specification for one `sometime-before` constraint *)
(* [m] = psi held in some state up to s (s included).  Every step s -> t of the plan passes the sometime-before check:
   phi does not hold in t, or psi held in some state strictly before t.  With m = "psi holds in s0" and phi false in s0
   this is SimCheck.mon_sb on the visited states (mrun_sb / mverdict_spec). *)
Fixpoint sb_chk (P : problem) (phi psi : expr) (m : bool) (s : state) (pi : list (N * list value)) : bool :=
  match pi with
  | [] => true
  | (aid, args) :: r =>
      match lookup_action P aid with
      | Some a =>
          match spec_step false P s a args with
          | Some t =>
              (negb (holds false (mk_interp P t []) phi) || m) &&
              sb_chk P phi psi (m || holds false (mk_interp P t []) psi) t r
          | None => true
          end
      | None => true
      end
  end.

(* ------------------------------------------------------------------ the specification for one `sometime-after` constraint *)
(* the monitoring bit at the end of the plan: set when psi holds, reset when phi holds without psi, kept otherwise.
   Started with "psi or not phi in s0" this is SimCheck.mon_sa on the visited states (mrun_sa / mverdict_spec). *)
Fixpoint sa_bit (P : problem) (phi psi : expr) (m : bool) (s : state) (pi : list (N * list value)) : bool :=
  match pi with
  | [] => m
  | (aid, args) :: r =>
      match lookup_action P aid with
      | Some a =>
          match spec_step false P s a args with
          | Some t => sa_bit P phi psi (if holds false (mk_interp P t []) psi then true
                                        else if holds false (mk_interp P t []) phi then false else m) t r
          | None => m
          end
      | None => m
      end
  end.
