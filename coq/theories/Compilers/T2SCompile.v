(* C28 (whole plan) - model of the COMPILER direction of unified_planning/engines/compilers/timed_to_sequential.py.
   DEFINITIONS ONLY (proofs: Proofs/T2SCompile_proofs.v, statements: Props/C28_whole.v).

   Mirrors  TimedToSequential._compile / get_effects_data_structures / get_start_effects_substitutions  for one
   durative action, as a function from the [daction] record of Planning/Temporal.v to the [action] record of
   Planning/Problem.v, and the whole problem ([t2s_problem]).  [None] = the real compiler raises, or the action is
   outside what this model covers (each case is marked REJECTS / NOT MODELLED below).

   External behaviour, explicit parameter:  [smp] = problem.environment.simplifier.simplify  (C11).
   The substituter is the model of C13 (Walkers/Subst.v, [substitute]); the up-front type check of the map is not
   repeated here (the keys are fluent expressions and the values come from effects on the same fluents).

   What the code does with one DurativeAction (effects are unconditional and without forall variables here):
     * effects at a timing other than StartTiming() / EndTiming() (delay 0): REJECTS ("Intermediate effects ...");
     * old_start_effects / old_end_effects: the effects of each timing grouped by their LIFTED target fluent expression
       (a Python dict keyed by FNode, insertion order)                                           -> [group]
     * start_effects_subs[f] = f, then for each start effect on f in order: assignment -> value, increase ->
       Plus(current, value), decrease -> Minus(current, value)                                   -> [start_subs]
     * conditions, in the order of action.conditions: an interval whose lower end is StartTiming() and is not
       left-open contributes each condition unchanged; an interval whose upper end is EndTiming() contributes
       simplify(c.substitute(start_effects_subs)); an interval can contribute both; add_precondition drops TRUE and
       duplicates.  Any other interval contributes NOTHING (the kind check rejects intermediate conditions before
       _compile is reached: see [t2s_fragment])                                                  -> [compile_pre]
     * end effects, group by group: an assignment gets the value simplify(v.substitute(subs)) and is SKIPPED when
       it is implied by a precondition syntactically (value TRUE and f is a precondition, value FALSE and Not(f) is,
       or EqualsOrIff(f, value) is); an increase/decrease becomes the ASSIGNMENT f := simplify((f +/- v).substitute(subs));
       the target arguments are not substituted                                                  -> [compile_end]
     * start effects whose lifted target is not the target of some end effect are copied unchanged -> [compile_start]
     * InstantaneousAction.add_effect runs check_conflicting_effects (unconditional effects on non-Boolean fluents:
       assignment after increase/decrease of the same lifted fluent, two assignments with different values,
       increase/decrease after an assignment: REJECTS with UPConflictingEffectsException)       -> [add_eff]
     * the duration constraint is dropped.
   Timed effects, timed goals, state invariants: not in supported_kind (the Compiler mixin refuses the problem). *)
From Coq Require Import List ZArith NArith QArith Qcanon Bool.
Import ListNotations.
Require Import UPV.Core.Expr UPV.Core.Eval UPV.Core.Interp UPV.Planning.Problem UPV.Planning.Sem.
Require Import UPV.Planning.Temporal UPV.Walkers.Subst.

(* ------------------------------------------------------------------ timings *)
(* tm == StartTiming() / EndTiming(): the anchor and a zero delay *)
Definition is_start0 (tm : timing) : bool :=
  match tm_anchor tm with AStart => qc_is0 (tm_delay tm) | AEnd => false end.
Definition is_end0 (tm : timing) : bool :=
  match tm_anchor tm with AEnd => qc_is0 (tm_delay tm) | AStart => false end.

Definition effs_at (f : timing -> bool) (d : daction) : list effect :=
  flat_map (fun te => if f (fst te) then snd te else []) (d_effs d).
Definition start_effs (d : daction) : list effect := effs_at is_start0 d.
Definition end_effs (d : daction) : list effect := effs_at is_end0 d.

(* ------------------------------------------------------------------ grouping by lifted target *)
Definition ekey (e : effect) : expr := EFluent (e_fl e) (e_args e).          (* Effect.fluent *)

Definition groups_t := list (expr * list effect).

Fixpoint ginsert (k : expr) (e : effect) (g : groups_t) : groups_t :=
  match g with
  | [] => [(k, [e])]
  | (k', l) :: g' => if expr_eqb k' k then (k', l ++ [e]) :: g' else (k', l) :: ginsert k e g'
  end.

Definition group (l : list effect) : groups_t := fold_left (fun g e => ginsert (ekey e) e g) l [].

Definition has_key (k : expr) (g : groups_t) : bool := existsb (fun kl => expr_eqb (fst kl) k) g.

(* ------------------------------------------------------------------ get_start_effects_substitutions *)
Definition sub_step (cur : expr) (e : effect) : expr :=
  match e_kind e with
  | KAssign => e_val e
  | KInc => mkPlus [cur; e_val e]              (* em.Plus(current, value) *)
  | KDec => EMinus cur (e_val e)               (* em.Minus(current, value) *)
  end.

Definition start_subs (gs : groups_t) : smap :=
  map (fun kl => (fst kl, fold_left sub_step (snd kl) (fst kl))) gs.

(* ------------------------------------------------------------------ preconditions *)
Definition mem_expr (e : expr) (l : list expr) : bool := existsb (expr_eqb e) l.

(* Transition.add_precondition: TRUE is dropped, a duplicate is dropped *)
Definition add_pre (pre : list expr) (c : expr) : list expr :=
  if is_true c then pre else if mem_expr c pre then pre else pre ++ [c].

Section Compile.
  Variable smp : expr -> expr.             (* Simplifier.simplify *)

  Definition sub_smp (sigma : smap) (c : expr) : expr := smp (substitute sigma c).

  Definition cond_contrib (sigma : smap) (pre : list expr) (ic : tinterval * list expr) : list expr :=
    let iv := fst ic in
    let pre1 := if is_start0 (ti_lo iv) && negb (ti_lopen iv) then fold_left add_pre (snd ic) pre else pre in
    if is_end0 (ti_hi iv) then fold_left (fun p c => add_pre p (sub_smp sigma c)) (snd ic) pre1 else pre1.

  Definition compile_pre (sigma : smap) (d : daction) : list expr :=
    fold_left (cond_contrib sigma) (d_conds d) [].

  (* ---------------------------------------------------------------- check_conflicting_effects + append *)
  Definition const_num (e : expr) : option Qc :=
    match e with EInt z => Some (zq z) | EReal q => Some q | _ => None end.

  (* assigned_value != effect.value and not (both constants with the same value) *)
  Definition same_value (a b : expr) : bool :=
    expr_eqb a b ||
    match const_num a, const_num b with Some x, Some y => qc_eqb x y | _, _ => false end.

  Record acc := { ac_effs : list effect; ac_asg : list (expr * expr); ac_incdec : list expr }.
  Definition acc0 : acc := {| ac_effs := []; ac_asg := []; ac_incdec := [] |}.

  (* None = UPConflictingEffectsException.  Only unconditional effects reach this function. *)
  Definition add_eff (a : acc) (e : effect) : option acc :=
    let k := ekey e in
    let app := ac_effs a ++ [e] in
    if e_isbool e then Some {| ac_effs := app; ac_asg := ac_asg a; ac_incdec := ac_incdec a |}
    else match e_kind e with
         | KAssign =>
             if mem_expr k (ac_incdec a) then None
             else match lookup (ac_asg a) k with
                  | Some v0 => if same_value v0 (e_val e)
                               then Some {| ac_effs := app; ac_asg := ac_asg a; ac_incdec := ac_incdec a |}
                               else None
                  | None => Some {| ac_effs := app; ac_asg := ac_asg a ++ [(k, e_val e)]; ac_incdec := ac_incdec a |}
                  end
         | KInc | KDec =>
             match lookup (ac_asg a) k with
             | Some _ => None
             | None => Some {| ac_effs := app; ac_asg := ac_asg a;
                               ac_incdec := if mem_expr k (ac_incdec a) then ac_incdec a else ac_incdec a ++ [k] |}
             end
         end.

  Definition mk_assign (e : effect) (v : expr) : effect :=
    {| e_fl := e_fl e; e_args := e_args e; e_val := v; e_cond := EBool true; e_kind := KAssign;
       e_vars := []; e_isbool := e_isbool e |}.

  (* the syntactic "already implied by a precondition" test that skips an end assignment *)
  Definition implied_by_pre (pre : list expr) (e : effect) (nv : expr) : bool :=
    let k := ekey e in
    match nv with
    | EBool true => mem_expr k pre
    | EBool false => mem_expr (ENot k) pre
    | _ => mem_expr (if e_isbool e then EIff k nv else EEquals k nv) pre          (* em.EqualsOrIff *)
    end.

  Definition compile_end1 (sigma : smap) (pre : list expr) (oa : option acc) (e : effect) : option acc :=
    match oa with
    | None => None
    | Some a =>
        match e_kind e with
        | KAssign =>
            let nv := sub_smp sigma (e_val e) in
            if implied_by_pre pre e nv then Some a else add_eff a (mk_assign e nv)
        | KInc => add_eff a (mk_assign e (sub_smp sigma (mkPlus [ekey e; e_val e])))
        | KDec => add_eff a (mk_assign e (sub_smp sigma (EMinus (ekey e) (e_val e))))
        end
    end.

  Definition compile_end (sigma : smap) (pre : list expr) (ge : groups_t) : option acc :=
    fold_left (compile_end1 sigma pre) (flat_map snd ge) (Some acc0).

  Definition compile_start (ge gs : groups_t) (oa : option acc) : option acc :=
    fold_left (fun oa e => match oa with Some a => add_eff a e | None => None end)
              (flat_map (fun kl => if has_key (fst kl) ge then [] else snd kl) gs) oa.

  (* ---------------------------------------------------------------- what the model covers *)
  (* every effect is unconditional and has no forall variables (conditional start effects trigger extra rejections in
     get_start_effects_substitutions, and the forall variables of an effect are dropped by _compile: NOT MODELLED),
     and sits at StartTiming() or EndTiming() (anything else: REJECTS) *)
  Definition eff_plain (e : effect) : bool :=
    is_true (e_cond e) && match e_vars e with [] => true | _ => false end.

  Definition effs_supported (d : daction) : bool :=
    forallb (fun te => (is_start0 (fst te) || is_end0 (fst te)) && forallb eff_plain (snd te)) (d_effs d).

  Definition t2s_action (d : daction) : option action :=
    if negb (effs_supported d) then None
    else
      let gs := group (start_effs d) in
      let ge := group (end_effs d) in
      let sigma := start_subs gs in
      let pre := compile_pre sigma d in
      match compile_start ge gs (compile_end sigma pre ge) with
      | None => None
      | Some a => Some {| a_params := d_params d; a_pre := pre; a_effs := ac_effs a |}
      end.

  (* all durative actions of the problem; None as soon as one is refused *)
  Fixpoint t2s_actions (l : list (N * daction)) : option (list (N * action)) :=
    match l with
    | [] => Some []
    | (i, d) :: l' =>
        match t2s_action d, t2s_actions l' with
        | Some a, Some r => Some ((i, a) :: r)
        | _, _ => None
        end
    end.

  (* new_problem = problem.clone() with the durative actions replaced (same names = same ids).  The optional pruning
     of fluents that became unused (remove_unused_fluents) is not modelled: a pruned fluent is neither read nor
     written by the compiled problem. *)
  Definition t2s_problem (TP : tproblem) : option problem :=
    match t2s_actions (tp_dur TP) with
    | None => None
    | Some acts =>
        let P := tp_base TP in
        Some {| p_objs := p_objs P; p_ifun := p_ifun P; p_fluents := p_fluents P;
                p_actions := p_actions P ++ acts; p_goals := p_goals P; p_invs := p_invs P |}
    end.
End Compile.

(* ------------------------------------------------------------------ the compiler's fragment (kind check + shape) *)
(* supported_kind has no TIMED_EFFECTS, TIMED_GOALS, STATE_INVARIANTS, INTERMEDIATE_CONDITIONS_AND_EFFECTS:
   Compiler.compile refuses such problems before _compile runs *)
Definition end_point (tm : timing) : bool := is_start0 tm || is_end0 tm.

Definition conds_supported (d : daction) : bool :=
  forallb (fun ic => end_point (ti_lo (fst ic)) && end_point (ti_hi (fst ic))) (d_conds d).

Definition t2s_fragment (TP : tproblem) : bool :=
  match tp_teffs TP with [] => true | _ => false end &&
  match tp_tgoals TP with [] => true | _ => false end &&
  match p_invs (tp_base TP) with [] => true | _ => false end &&
  forallb (fun id => effs_supported (snd id) && conds_supported (snd id)) (tp_dur TP) &&
  forallb (fun id => match lookupN (fst id) (p_actions (tp_base TP)) with None => true | Some _ => false end) (tp_dur TP).

(* ------------------------------------------------------------------ plan_back_conversion_callable over these records *)
(* bound_value: the bound with the actual parameters, evaluated in the state where the compiled action is applied *)
Definition bound_val (sc : bool) (P : problem) (s : state) (bind : list (N * value)) (e : expr) : option Qc :=
  as_num (eval sc e (mk_interp P s bind)).

(* dtime = lower; if left-open: (lower + upper) / 2   (= Model/T2S.choose_duration on canonical rationals) *)
Definition choose_dur (lo hi : Qc) (lopen : bool) : Qc :=
  if lopen then Qcdiv (Qcplus lo hi) (zq 2) else lo.

Definition step_dur (sc : bool) (P : problem) (s : state) (d : daction) (args : list value) : option Qc :=
  let bind := zip_params (d_params d) args in
  match bound_val sc P s bind (d_lo d) with
  | None => None
  | Some l =>
      if d_lopen d
      then match bound_val sc P s bind (d_hi d) with Some h => Some (choose_dur l h true) | None => None end
      else Some (choose_dur l l false)
  end.

(* the loop of plan_back_conversion_callable: [P'] is the compiled problem whose simulator supplies the states
   ([spec_step]: the documented step semantics, which the simulator refines - C01), [now] is time_now.
   None = an exception (unknown action, undefined bound, inapplicable action). *)
Fixpoint back_plan (sc : bool) (TP : tproblem) (P' : problem) (eps : Qc) (now : Qc) (s : state)
         (pi : list (N * list value)) : option tplan :=
  match pi with
  | [] => Some []
  | (aid, args) :: rest =>
      match lookup_action P' aid with
      | None => None
      | Some a' =>
          match lookup_tact TP aid with
          | None => None
          | Some (TInst _) =>
              match spec_step sc P' s a' args with
              | None => None
              | Some s' =>
                  option_map (cons {| ps_start := now; ps_act := aid; ps_args := args; ps_dur := None |})
                             (back_plan sc TP P' eps (Qcplus now eps) s' rest)
              end
          | Some (TDur d) =>
              match step_dur sc (tp_base TP) s d args with
              | None => None
              | Some dt =>
                  match spec_step sc P' s a' args with
                  | None => None
                  | Some s' =>
                      option_map (cons {| ps_start := now; ps_act := aid; ps_args := args; ps_dur := Some dt |})
                                 (back_plan sc TP P' eps (Qcplus (Qcplus now dt) eps) s' rest)
                  end
              end
          end
      end
  end.

(* ------------------------------------------------------------------ side conditions of the whole-plan statement *)
(* the duration interval evaluated in [s] contains at least one value (the compiled action does not test this) *)
Definition dur_nonempty (sc : bool) (P : problem) (s : state) (bind : list (N * value)) (d : daction) : bool :=
  match eval sc (d_lo d) (mk_interp P s bind), eval sc (d_hi d) (mk_interp P s bind) with
  | Some (VNum l), Some (VNum h) => if d_lopen d || d_ropen d then qc_ltb l h else qc_leb l h
  | _, _ => false
  end.

(* No lifted aliasing inside one durative action (the compiler merges and substitutes per LIFTED fluent expression):
   effect targets are applied to parameters / objects only; two effects on the same fluent symbol have syntactically
   the same target; an assignment is the only effect of its timing on its target; every occurrence of a written
   fluent symbol in a condition or an effect value is syntactically one of the targets. *)
Definition flat_arg (e : expr) : bool := match e with EParam _ | EObj _ => true | _ => false end.

Definition key_sym (ks : list (N * list expr)) (f : N) : bool := existsb (fun k => (fst k =? f)%N) ks.
Definition key_mem (ks : list (N * list expr)) (f : N) (args : list expr) : bool :=
  existsb (fun k => (fst k =? f)%N && list_expr_eqb (snd k) args) ks.

Fixpoint occs_ok (ks : list (N * list expr)) (e : expr) {struct e} : bool :=
  match e with
  | EBool _ | EInt _ | EReal _ | EObj _ | EParam _ | EVar _ _ => true
  | EFluent g args => forallb (occs_ok ks) args && (negb (key_sym ks g) || key_mem ks g args)
  | EIFun _ l | EAnd l | EOr l | EPlus l | ETimes l => forallb (occs_ok ks) l
  | ENot a | EAlways a | ESometime a | EAtMostOnce a | EExists _ a | EForall _ a => occs_ok ks a
  | EImplies a b | EIff a b | EMinus a b | EDiv a b | ELe a b | ELt a b | EEquals a b
  | ESometimeBefore a b | ESometimeAfter a b => occs_ok ks a && occs_ok ks b
  end.

Definition group_plain (g : groups_t) : bool :=
  forallb (fun kl => match snd kl with
                     | [_] => true
                     | l => forallb (fun e => match e_kind e with KAssign => false | _ => true end) l
                     end) g.

Definition alias_free (d : daction) : bool :=
  let effs := start_effs d ++ end_effs d in
  let ks := map (fun e => (e_fl e, e_args e)) effs in
  forallb (fun e => forallb flat_arg (e_args e)) effs &&
  forallb (fun e1 => forallb (fun e2 => negb (e_fl e1 =? e_fl e2)%N || list_expr_eqb (e_args e1) (e_args e2)) effs) effs &&
  group_plain (group (start_effs d)) && group_plain (group (end_effs d)) &&
  forallb (occs_ok ks) (flat_map snd (d_conds d) ++ map e_val effs).

(* ------------------------------------------------------------------ sub-fragment "no start effects, plain compilation" *)
(* All actions are durative; each durative action has exactly one effect entry, at EndTiming(), made of unconditional
   assignments; and the compiler's output on it has the plain form: the effects are the end assignments with
   simplified values, in order (no assignment skipped as implied by a precondition, no regrouping), and every
   condition that the compiler keeps (interval starting at StartTiming() closed on the left: as is; interval ending at
   EndTiming(): simplified) is TRUE or among the preconditions.  A computable check on (problem, compiler output). *)
Definition kind_eqb (a b : ekind) : bool :=
  match a, b with KAssign, KAssign | KInc, KInc | KDec, KDec => true | _, _ => false end.

Definition effect_eqb (a b : effect) : bool :=
  (e_fl a =? e_fl b)%N && list_expr_eqb (e_args a) (e_args b) && expr_eqb (e_val a) (e_val b) &&
  expr_eqb (e_cond a) (e_cond b) && kind_eqb (e_kind a) (e_kind b) && vars_eqb (e_vars a) (e_vars b) &&
  Bool.eqb (e_isbool a) (e_isbool b).

Fixpoint effects_eqb (a b : list effect) : bool :=
  match a, b with [], [] => true | x :: a', y :: b' => effect_eqb x y && effects_eqb a' b' | _, _ => false end.

Definition covered (pre : list expr) (c : expr) : bool := is_true c || mem_expr c pre.

Definition only_end_effs (d : daction) : option (list effect) :=
  match d_effs d with
  | [(tm, l)] => if is_end0 tm then Some l else None
  | _ => None
  end.

Definition plain_assign (e : effect) : bool :=
  eff_plain e && match e_kind e with KAssign => true | _ => false end.

Definition conds_covered (smp : expr -> expr) (d : daction) (pre : list expr) : bool :=
  forallb (fun ic =>
             let iv := fst ic in
             (if is_start0 (ti_lo iv) && negb (ti_lopen iv) then forallb (covered pre) (snd ic) else true) &&
             (if is_end0 (ti_hi iv) then forallb (fun c => covered pre (smp c)) (snd ic) else true)) (d_conds d).

Definition plain_step (smp : expr -> expr) (d : daction) (a' : action) : bool :=
  match only_end_effs d with
  | None => false
  | Some l =>
      forallb plain_assign l &&
      effects_eqb (a_effs a') (map (fun e => mk_assign e (smp (e_val e))) l) &&
      conds_covered smp d (a_pre a')
  end.

Definition no_start_fragment (smp : expr -> expr) (TP : tproblem) : bool :=
  t2s_fragment TP &&
  match p_actions (tp_base TP) with [] => true | _ => false end &&
  forallb (fun id => match t2s_action smp (snd id) with
                     | Some a' => plain_step smp (snd id) a'
                     | None => false
                     end) (tp_dur TP).

(* the same sub-fragment without the restriction to durative actions: instantaneous actions (copied unchanged by the
   compiler) may be mixed with end-effect-only durative actions *)
Definition end_only_fragment (smp : expr -> expr) (TP : tproblem) : bool :=
  t2s_fragment TP &&
  forallb (fun id => match t2s_action smp (snd id) with
                     | Some a' => plain_step smp (snd id) a'
                     | None => false
                     end) (tp_dur TP).

(* ------------------------------------------------------------------ sub-fragment "start effects written, not read"
   (definitions for the open goals of Props/C28_whole.v) *)
(* no fluent symbol of [fs] occurs in [e] *)
Fixpoint no_sym (fs : list N) (e : expr) {struct e} : bool :=
  match e with
  | EBool _ | EInt _ | EReal _ | EObj _ | EParam _ | EVar _ _ => true
  | EFluent g args => forallb (no_sym fs) args && negb (memN g fs)
  | EIFun _ l | EAnd l | EOr l | EPlus l | ETimes l => forallb (no_sym fs) l
  | ENot a | EAlways a | ESometime a | EAtMostOnce a | EExists _ a | EForall _ a => no_sym fs a
  | EImplies a b | EIff a b | EMinus a b | EDiv a b | ELe a b | ELt a b | EEquals a b
  | ESometimeBefore a b | ESometimeAfter a b => no_sym fs a && no_sym fs b
  end.

(* the durative action has unconditional start effects (any kind) on fluent symbols that nothing else in the action
   mentions (no condition, no effect value, no target argument, no end target), unconditional end assignments, and
   the compiler's output is: the end assignments with simplified values, then the start effects; every kept condition
   is TRUE or among the preconditions (so the start-effect substitution changed nothing) *)
Definition start_not_read_step (smp : expr -> expr) (d : daction) (a' : action) : bool :=
  let ls := start_effs d in
  let le := end_effs d in
  let fs := map e_fl ls in
  effs_supported d && forallb plain_assign le &&
  forallb (fun e => negb (memN (e_fl e) fs)) le &&
  forallb (no_sym fs) (flat_map snd (d_conds d) ++ map e_val (ls ++ le) ++ flat_map e_args (ls ++ le)) &&
  effects_eqb (a_effs a') (map (fun e => mk_assign e (smp (e_val e))) le ++ ls) &&
  conds_covered smp d (a_pre a').

Definition start_not_read_fragment (smp : expr -> expr) (TP : tproblem) : bool :=
  t2s_fragment TP &&
  forallb (fun id => alias_free (snd id) &&
                     match t2s_action smp (snd id) with
                     | Some a' => start_not_read_step smp (snd id) a'
                     | None => false
                     end) (tp_dur TP).
