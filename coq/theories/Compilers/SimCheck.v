(* Coq-verified plan-correspondence validators for problem-transforming compilers (C06, C07; DESIGN.md "Shape of
   the validator").

   A transition system [tsys] is a [problem] of Planning/Problem.v together with its initial state, the finite
   alphabet of ground action instances plans are built from, and its trajectory constraints.  Steps are the
   documented sequential semantics [spec_step false] of Planning/Sem.v (strict evaluation) on BOTH sides.

   [sound_search T T' back n]     explores every plan of the compiled system T' up to length n together with the run
                                  of its image under [back] in the original system T; it returns a compiled plan that
                                  is valid while its image is not, or None.
   [complete_search T T' back k n] enumerates every valid plan of T up to length n and propagates the set of compiled
                                  configurations reachable by compiled plans that map back to the prefix (modulo
                                  original steps that leave the state unchanged), using at most k auxiliary steps
                                  ([back a' = None]); it returns a valid original plan without counterpart, or None.

   Definitions only; the theorems are in Proofs/SimCheck_proofs.v. *)
From Coq Require Import List ZArith NArith QArith Qcanon Bool.
Import ListNotations.
Require Import UPV.Core.Expr UPV.Core.Eval UPV.Core.Interp UPV.Planning.Problem UPV.Planning.Sem.

Definition inst := (N * list value)%type.      (* ground action instance: action id, actual parameters *)
Definition plan := list inst.

Record tsys := {
  ts_prob : problem;
  ts_init : state;
  ts_insts : list inst;       (* the ground action instances of the problem (alphabet of its plans) *)
  ts_traj : list expr         (* trajectory constraints, one PDDL3 modal operator each (top-level And flattened) *)
}.

(* ------------------------------------------------------------------ PDDL3 monitors over a finite state sequence *)
Section Monitors.
  Context {A : Type}.
  Variables phi psi : A -> bool.

  (* sometime-after phi psi: every position satisfying phi is followed (at that position or later) by psi *)
  Fixpoint mon_sa (l : list A) : bool :=
    match l with
    | [] => true
    | s :: r => (if phi s then existsb psi (s :: r) else true) && mon_sa r
    end.

  (* sometime-before phi psi: every position satisfying phi is strictly preceded by psi; [seen] = psi seen so far *)
  Fixpoint mon_sb (seen : bool) (l : list A) : bool :=
    match l with
    | [] => true
    | s :: r => (if phi s then seen else true) && mon_sb (seen || psi s) r
    end.

  (* at-most-once phi: the positions satisfying phi form at most one interval *)
  Fixpoint mon_amo_in (l : list A) : bool :=
    match l with
    | [] => true
    | s :: r => if phi s then mon_amo_in r else forallb (fun x => negb (phi x)) r
    end.
  Fixpoint mon_amo (l : list A) : bool :=
    match l with
    | [] => true
    | s :: r => if phi s then mon_amo_in r else mon_amo r
    end.
End Monitors.

Definition first_some {A B} (f : A -> option B) : list A -> option B :=
  fix go (l : list A) : option B :=
    match l with
    | [] => None
    | x :: r => match f x with Some y => Some y | None => go r end
    end.

Definition inst_eqb (a b : inst) : bool := gfl_eqb a b.

Definition back_of (tbl : list (inst * option inst)) (a' : inst) : option inst :=
  match find (fun p => inst_eqb (fst p) a') tbl with
  | Some (_, r) => r
  | None => None
  end.

Definition map_back (back : inst -> option inst) (pi' : plan) : plan :=
  flat_map (fun a' => match back a' with Some a => [a] | None => [] end) pi'.

Section TS.
  Variable T : tsys.

  Definition step (s : state) (ai : inst) : option state :=
    match lookup_action (ts_prob T) (fst ai) with
    | Some a => spec_step false (ts_prob T) s a (snd ai)
    | None => None
    end.

  (* a state satisfies a (non-temporal) condition: strict evaluation to true *)
  Definition sat (s : state) (e : expr) : bool := holds false (mk_interp (ts_prob T) s []) e.

  (* the monitor: does the state sequence [sts] (initial state first) satisfy the trajectory constraint [c]? *)
  Definition traj_holds (sts : list state) (c : expr) : bool :=
    match c with
    | EBool true => true
    | EAlways e => forallb (fun s => sat s e) sts
    | ESometime e => existsb (fun s => sat s e) sts
    | EAtMostOnce e => mon_amo (fun s => sat s e) sts
    | ESometimeBefore a b => mon_sb (fun s => sat s a) (fun s => sat s b) false sts
    | ESometimeAfter a b => mon_sa (fun s => sat s a) (fun s => sat s b) sts
    | _ => false
    end.

  (* the declarative PDDL3 semantics (Gerevini & Long, "Plan constraints and preferences in PDDL3", over the finite
     state sequence of a sequential plan); a position is a decomposition  sts = pre ++ s :: post *)
  Definition traj_sem (sts : list state) (c : expr) : Prop :=
    match c with
    | EBool true => True
    | EAlways e => forall s, In s sts -> sat s e = true
    | ESometime e => exists s, In s sts /\ sat s e = true
    | EAtMostOnce e =>
        forall pre s post, sts = pre ++ s :: post -> sat s e = true ->
          exists mid rest, post = mid ++ rest /\ (forall x, In x mid -> sat x e = true)
                           /\ (forall x, In x rest -> sat x e = false)
    | ESometimeBefore a b =>
        forall pre s post, sts = pre ++ s :: post -> sat s a = true -> exists t, In t pre /\ sat t b = true
    | ESometimeAfter a b =>
        forall pre s post, sts = pre ++ s :: post -> sat s a = true -> exists t, In t (s :: post) /\ sat t b = true
    | _ => False
    end.

  (* the initial state satisfies the state invariants and bounded types (UPSequentialSimulator.get_initial_state
     raises UPProblemDefinitionError otherwise: no plan is valid) *)
  Definition init_ok : bool := invariants_ok false (ts_prob T) (ts_init T).

  (* [rh]: the states visited so far, most recent first (so [rev rh] is the state sequence, initial state first) *)
  Definition accept (s : state) (rh : list state) : bool :=
    goals_hold false (ts_prob T) s && forallb (traj_holds (rev rh)) (ts_traj T).

  Fixpoint run_hist (s : state) (rh : list state) (pi : plan) : option (state * list state) :=
    match pi with
    | [] => Some (s, rh)
    | a :: r => match step s a with Some t => run_hist t (t :: rh) r | None => None end
    end.

  Definition valid (pi : plan) : bool :=
    init_ok &&
    match run_hist (ts_init T) [ts_init T] pi with
    | Some (s, rh) => accept s rh
    | None => false
    end.

  (* the same thing written with the explicit state sequence *)
  Fixpoint trace (s : state) (pi : plan) : option (list state) :=
    match pi with
    | [] => Some []
    | a :: r => match step s a with
                | Some t => match trace t r with Some tr => Some (t :: tr) | None => None end
                | None => None
                end
    end.

  Definition valid_decl (pi : plan) : Prop :=
    init_ok = true /\
    exists tr, trace (ts_init T) pi = Some tr /\
               goals_hold false (ts_prob T) (last tr (ts_init T)) = true /\
               Forall (traj_sem (ts_init T :: tr)) (ts_traj T).

  Definition plan_over (pi : plan) : Prop := Forall (fun a => In a (ts_insts T)) pi.

  (* two states agree on every ground fluent of the problem *)
  Definition same_obs (s t : state) : bool :=
    forallb (fun k => ovalue_eqb (s (fst k) (snd k)) (t (fst k) (snd k))) (ground_fluents (ts_prob T)).

  (* [rho] is obtained from [pi] (run from [s]) by deleting some steps that leave every ground fluent unchanged *)
  Inductive sub_noop : state -> plan -> plan -> Prop :=
  | sn_nil s : sub_noop s [] []
  | sn_keep s a t pi rho : step s a = Some t -> sub_noop t pi rho -> sub_noop s (a :: pi) (a :: rho)
  | sn_drop s a t pi rho : step s a = Some t -> same_obs s t = true -> sub_noop t pi rho -> sub_noop s (a :: pi) rho.
End TS.

(* ------------------------------------------------------------------ soundness search (C06) *)
Section Sound.
  Variables T T' : tsys.
  Variable back : inst -> option inst.
  Variables ik ik' : bool.      (* init_ok T, init_ok T' (computed once) *)

  (* the original side of a product node: current state and history, or None once the image plan is not executable *)
  Definition onode := option (state * list state).

  Definition acc_o (o : onode) : bool :=
    match o with Some (s, rh) => ik && accept T s rh | None => false end.

  Definition next_o (o : onode) (a' : inst) : onode :=
    match back a' with
    | None => o                                   (* auxiliary action: the original system does not move *)
    | Some a =>
        match o with
        | Some (s, rh) => match step T s a with Some t => Some (t, t :: rh) | None => None end
        | None => None
        end
    end.

  (* Some pi' = a counterexample (compiled plan, valid, whose image is not valid) *)
  Fixpoint search (n : nat) (s' : state) (rh' : list state) (o : onode) (rp : plan) : option plan :=
    if accept T' s' rh' && negb (acc_o o) then Some (rev rp)
    else match n with
         | O => None
         | S m => first_some (fun a' => match step T' s' a' with
                                        | Some t' => search m t' (t' :: rh') (next_o o a') (a' :: rp)
                                        | None => None
                                        end) (ts_insts T')
         end.
End Sound.

Definition sound_search (T T' : tsys) (back : inst -> option inst) (n : nat) : option plan :=
  if init_ok T'
  then search T T' back (init_ok T) n (ts_init T') [ts_init T'] (Some (ts_init T, [ts_init T])) []
  else None.

Definition sound_check (T T' : tsys) (back : inst -> option inst) (n : nat) : bool :=
  match sound_search T T' back n with None => true | Some _ => false end.

(* ------------------------------------------------------------------ completeness search (C07) *)
Section Complete.
  Variables T T' : tsys.
  Variable back : inst -> option inst.
  Variable k : nat.

  (* a compiled configuration: state, history, remaining budget of auxiliary steps *)
  Definition cfg := (state * list state * nat)%type.
  Definition c_st (c : cfg) : state := fst (fst c).
  Definition c_rh (c : cfg) : list state := snd (fst c).
  Definition c_bud (c : cfg) : nat := snd c.

  Definition aux_succ (c : cfg) : list cfg :=
    match c_bud c with
    | O => []
    | S b => flat_map (fun a' => match back a' with
                                 | Some _ => []
                                 | None => match step T' (c_st c) a' with
                                           | Some t' => [(t', t' :: c_rh c, b)]
                                           | None => []
                                           end
                                 end) (ts_insts T')
    end.

  Fixpoint aux_close (fuel : nat) (cs : list cfg) : list cfg :=
    match fuel with
    | O => cs
    | S f => cs ++ aux_close f (flat_map aux_succ cs)
    end.

  (* compiled steps whose image is the original step [a] *)
  Definition move (a : inst) (c : cfg) : list cfg :=
    flat_map (fun a' => match back a' with
                        | Some a0 => if inst_eqb a0 a
                                     then match step T' (c_st c) a' with
                                          | Some t' => [(t', t' :: c_rh c, c_bud c)]
                                          | None => []
                                          end
                                     else []
                        | None => []
                        end) (ts_insts T').

  Definition next_cfgs (a : inst) (noop : bool) (cs : list cfg) : list cfg :=
    aux_close k (flat_map (move a) cs ++ (if noop then cs else [])).

  (* Some pi = a valid original plan for which no compiled configuration is accepting *)
  Fixpoint csearch (n : nat) (s : state) (rh : list state) (rp : plan) (cs : list cfg) : option plan :=
    if accept T s rh && negb (existsb (fun c => accept T' (c_st c) (c_rh c)) cs) then Some (rev rp)
    else match n with
         | O => None
         | S m => first_some (fun a => match step T s a with
                                       | Some t => csearch m t (t :: rh) (a :: rp) (next_cfgs a (same_obs T s t) cs)
                                       | None => None
                                       end) (ts_insts T)
         end.
End Complete.

Definition complete_search (T T' : tsys) (back : inst -> option inst) (k n : nat) : option plan :=
  if init_ok T
  then csearch T T' back k n (ts_init T) [ts_init T] []
         (if init_ok T' then aux_close T' back k [(ts_init T', [ts_init T'], k)] else [])
  else None.

Definition complete_check (T T' : tsys) (back : inst -> option inst) (k n : nat) : bool :=
  match complete_search T T' back k n with None => true | Some _ => false end.

(* ------------------------------------------------------------------ reporting helpers (witness plans as indices) *)
Fixpoint index_of (a : inst) (l : list inst) (i : N) : N :=
  match l with
  | [] => i
  | x :: r => if inst_eqb x a then i else index_of a r (N.succ i)
  end.

(* [0] = no counterexample; 1 :: indices = counterexample plan as indices into the given instance list *)
Definition report (insts : list inst) (r : option plan) : list N :=
  match r with
  | None => [0%N]
  | Some pi => 1%N :: map (fun a => index_of a insts 0%N) pi
  end.
