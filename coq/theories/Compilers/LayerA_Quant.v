(* C06 / C07, Layer A — QuantifiersRemover.  DEFINITIONS ONLY (proofs: Proofs/LayerA_Quant_proofs.v).

   Mirrors
     unified_planning/model/walkers/expression_quantifiers_remover.py   ExpressionQuantifiersRemover
         (IdentityDagWalker: every node is rebuilt through the ExpressionManager; walk_exists / walk_forall replace
          the quantifier by Or / And over `args[0].substitute(dict(zip(vars, objects)))` for the product of the
          objects of the variables' types — args[0] is the ALREADY EXPANDED body, the walker is post-order);
     unified_planning/model/effect.py                                   Effect.expand_effect
     unified_planning/engines/compilers/quantifiers_remover.py          QuantifiersRemover._compile
         (InstantaneousAction branch, goals, state invariants = Always(...) trajectory constraints, as of fix 6ed041c:
          the cloned trajectory constraints are cleared before they are added again without quantifiers).
   Substitution is the model of C13 (Walkers/Subst.v: [substitute]).  FNode.simplify() (environment-level Simplifier,
   C11) is external behaviour: a Section variable [smp]. *)
From Coq Require Import List ZArith NArith QArith Qcanon Bool.
Import ListNotations.
Require Import UPV.Core.Expr UPV.Core.Eval UPV.Core.Interp UPV.Planning.Problem UPV.Planning.Sem.
Require Import UPV.Walkers.Subst UPV.Compilers.Variants UPV.Compilers.LayerA_Defs.

(* ------------------------------------------------------------------ expression level *)
(* itertools.product over possible_objects: first variable outermost *)
Fixpoint obj_tuples (ob : N -> list N) (vs : list (N * N)) : list (list N) :=
  match vs with
  | [] => [[]]
  | (_, ty) :: vs' => flat_map (fun o => map (cons o) (obj_tuples ob vs')) (ob ty)
  end.

(* dict(zip(vars, objects)): VariableExp -> ObjectExp *)
Fixpoint zip_subs (vs : list (N * N)) (os : list N) : smap :=
  match vs, os with
  | (v, ty) :: vs', o :: os' => (EVar v ty, EObj o) :: zip_subs vs' os'
  | _, _ => []
  end.

(* ExpressionQuantifiersRemover.walk *)
Fixpoint expand (ob : N -> list N) (e : expr) {struct e} : expr :=
  match e with
  | EBool _ | EInt _ | EReal _ | EObj _ | EParam _ | EVar _ _ => e
  | EFluent f l => EFluent f (map (expand ob) l)
  | EIFun f l => EIFun f (map (expand ob) l)
  | EAnd l => mkAnd (map (expand ob) l)
  | EOr l => mkOr (map (expand ob) l)
  | ENot a => mkNot (expand ob a)
  | EImplies a b => EImplies (expand ob a) (expand ob b)
  | EIff a b => EIff (expand ob a) (expand ob b)
  | EExists vs a => mkOr (map (fun os => substitute (zip_subs vs os) (expand ob a)) (obj_tuples ob vs))
  | EForall vs a => mkAnd (map (fun os => substitute (zip_subs vs os) (expand ob a)) (obj_tuples ob vs))
  | EPlus l => mkPlus (map (expand ob) l)
  | EMinus a b => EMinus (expand ob a) (expand ob b)
  | ETimes l => mkTimes (map (expand ob) l)
  | EDiv a b => EDiv (expand ob a) (expand ob b)
  | ELe a b => ELe (expand ob a) (expand ob b)
  | ELt a b => ELt (expand ob a) (expand ob b)
  | EEquals a b => EEquals (expand ob a) (expand ob b)
  | EAlways a => EAlways (expand ob a)
  | ESometime a => ESometime (expand ob a)
  | ESometimeBefore a b => ESometimeBefore (expand ob a) (expand ob b)
  | ESometimeAfter a b => ESometimeAfter (expand ob a) (expand ob b)
  | EAtMostOnce a => EAtMostOnce (expand ob a)
  end.

(* the interpretation of one quantifier instance: the variables bound to the objects of the tuple, in order *)
Fixpoint binds (I : interp) (vs : list (N * N)) (os : list N) : interp :=
  match vs, os with
  | (v, _) :: vs', o :: os' => binds (bind_var I v o) vs' os'
  | _, _ => I
  end.

(* ---- side conditions of the expression-level theorem (all decidable) ---- *)
(* no quantifier *)
Fixpoint qf (e : expr) : bool :=
  match e with
  | EBool _ | EInt _ | EReal _ | EObj _ | EParam _ | EVar _ _ => true
  | EFluent _ l | EIFun _ l | EAnd l | EOr l | EPlus l | ETimes l => forallb qf l
  | ENot a | EAlways a | ESometime a | EAtMostOnce a => qf a
  | EExists _ _ | EForall _ _ => false
  | EImplies a b | EIff a b | EMinus a b | EDiv a b | ELe a b | ELt a b | EEquals a b
  | ESometimeBefore a b | ESometimeAfter a b => qf a && qf b
  end.

(* syntactically Boolean-valued: a Boolean operator, or an application of a fluent that [beta] declares Boolean *)
Definition bexp (beta : N -> bool) (e : expr) : bool :=
  match e with
  | EBool _ | EAnd _ | EOr _ | ENot _ | EImplies _ _ | EIff _ _ | EExists _ _ | EForall _ _
  | ELe _ _ | ELt _ _ | EEquals _ _ => true
  | EFluent f _ => beta f
  | _ => false
  end.

(* Boolean positions: the argument of every Not and the body of every quantifier is syntactically Boolean
   (the type checker guarantees it for expressions built through the API; Boolean parameters / variables / interpreted
   functions under a Not are outside the modelled fragment) *)
Fixpoint bpos (beta : N -> bool) (e : expr) : bool :=
  match e with
  | EBool _ | EInt _ | EReal _ | EObj _ | EParam _ | EVar _ _ => true
  | EFluent _ l | EIFun _ l | EAnd l | EOr l | EPlus l | ETimes l => forallb (bpos beta) l
  | ENot a => bexp beta a && bpos beta a
  | EExists _ a | EForall _ a => bexp beta a && bpos beta a
  | EAlways a | ESometime a | EAtMostOnce a => bpos beta a
  | EImplies a b | EIff a b | EMinus a b | EDiv a b | ELe a b | ELt a b | EEquals a b
  | ESometimeBefore a b | ESometimeAfter a b => bpos beta a && bpos beta b
  end.

(* variable ids stand for Variable objects (name AND type): every occurrence and every binder of id v carries the type
   tau v; the variables of one quantifier are distinct *)
Fixpoint nodupN (l : list N) : bool :=
  match l with [] => true | x :: l' => negb (memN x l') && nodupN l' end.

Definition binders_ok (tau : N -> N) (vs : list (N * N)) : bool :=
  forallb (fun vt => (snd vt =? tau (fst vt))%N) vs && nodupN (map fst vs).

Fixpoint vtyped (tau : N -> N) (e : expr) : bool :=
  match e with
  | EBool _ | EInt _ | EReal _ | EObj _ | EParam _ => true
  | EVar v t => (t =? tau v)%N
  | EFluent _ l | EIFun _ l | EAnd l | EOr l | EPlus l | ETimes l => forallb (vtyped tau) l
  | ENot a | EAlways a | ESometime a | EAtMostOnce a => vtyped tau a
  | EExists vs a | EForall vs a => binders_ok tau vs && vtyped tau a
  | EImplies a b | EIff a b | EMinus a b | EDiv a b | ELe a b | ELt a b | EEquals a b
  | ESometimeBefore a b | ESometimeAfter a b => vtyped tau a && vtyped tau b
  end.

Definition wfe (tau : N -> N) (beta : N -> bool) (e : expr) : bool := nf e && bpos beta e && vtyped tau e.

(* the interpretation gives the fluents that [beta] declares Boolean a Boolean value or none *)
Definition btyped (beta : N -> bool) (I : interp) : Prop :=
  forall f args, beta f = true -> bool_or_undef (fl I f args).

(* ------------------------------------------------------------------ problem level *)
Definition set_cv (e : effect) (args : list expr) (v c : expr) (vars : list (N * N)) : effect :=
  {| e_fl := e_fl e; e_args := args; e_val := v; e_cond := c; e_kind := e_kind e; e_vars := vars;
     e_isbool := e_isbool e |}.

(* InstantaneousAction.add_precondition: the constant TRUE and an expression already present are skipped *)
Definition add_pre (acc : list expr) (p : expr) : list expr :=
  if is_true p || existsb (expr_eqb p) acc then acc else acc ++ [p].
Definition add_pres (l : list expr) : list expr := fold_left add_pre l [].

(* Problem.add_goal: the constant TRUE is skipped *)
Definition add_goals (l : list expr) : list expr := filter (fun g => negb (is_true g)) l.

Section QuantCompile.
  (* FNode.simplify() *)
  Variable smp : expr -> expr.
  Variable P : problem.
  Let ob := objs_of P.

  (* Effect.expand_effect: one copy per object tuple of the forall variables, variables substituted in the fluent
     expression, the value and the condition; an effect without forall variables is yielded as it is *)
  Definition expand_effect (e : effect) : list effect :=
    match e_vars e with
    | [] => [e]
    | vs => map (fun os => let s := zip_subs vs os in
                           set_cv e (map (substitute s) (e_args e)) (substitute s (e_val e)) (substitute s (e_cond e)) [])
                (obj_tuples ob vs)
    end.

  (* the loop body of _compile: condition (only of a conditional effect) without quantifiers and simplified, value
     without quantifiers, the effect is left out when its condition is the constant FALSE *)
  Definition q_effect1 (e : effect) : list effect :=
    let c := if is_uncond e then e_cond e else smp (expand ob (e_cond e)) in
    if is_false c then [] else [set_cv e (e_args e) (expand ob (e_val e)) c (e_vars e)].

  Definition q_effects (effs : list effect) : list effect :=
    flat_map (fun e => flat_map q_effect1 (expand_effect e)) effs.

  (* None: _add_effect_instance raised UPConflictingEffectsException, the action is left out (fix 9758b17) *)
  Definition q_action (a : action) : option action :=
    let effs := q_effects (a_effs a) in
    if add_effs_ok [] [] effs
    then Some {| a_params := a_params a; a_pre := add_pres (map (expand ob) (a_pre a)); a_effs := effs |}
    else None.

  (* a state invariant is the body of an Always(...) trajectory constraint; add_trajectory_constraint stores
     constraint.simplify(): Always(true) becomes TRUE (no invariant), Always(false) the constant FALSE (kept here as
     the invariant `false`: no state satisfies it) *)
  Definition q_invs (invs : list expr) : list expr :=
    filter (fun i => negb (is_true i)) (map (fun i => smp (expand ob i)) invs).

  Definition quant_compile : problem :=
    {| p_objs := p_objs P; p_ifun := p_ifun P; p_fluents := p_fluents P;
       p_actions := map_actions q_action (p_actions P);
       p_goals := add_goals (map (expand ob) (p_goals P));
       p_invs := q_invs (p_invs P) |}.

  (* ---- hypotheses of the plan-level theorems ---- *)
  Variable tau : N -> N.
  Let beta := is_bool_fluent P.

  Definition effect_wf (e : effect) : bool :=
    forallb (wfe tau beta) (e_args e) && wfe tau beta (e_val e) && wfe tau beta (e_cond e) &&
    binders_ok tau (e_vars e).

  Definition action_wf (a : action) : bool :=
    forallb (wfe tau beta) (a_pre a) && forallb effect_wf (a_effs a).

  Definition problem_wf : bool :=
    forallb (fun ia => action_wf (snd ia)) (p_actions P) && forallb (wfe tau beta) (p_goals P) &&
    forallb (wfe tau beta) (p_invs P).

  (* the targets of the effects are defined whatever the state (they are objects, parameters, forall variables):
     needed because the compiler drops an effect whose condition is the constant FALSE, while the original step
     still evaluates the target of an effect that does not fire *)
  Definition targets_total (a : action) (args : list value) : Prop :=
    forall s e J, In e (a_effs a) ->
      In J (instances (mk_interp P s (zip_params (a_params a) args)) (e_vars e)) ->
      evals_l false J (e_args e) <> None.

  Definition plan_targets_total (pi : list (N * list value)) : Prop :=
    forall aid args a, In (aid, args) pi -> lookup_action P aid = Some a -> targets_total a args.

  (* no action is left out for conflicting effects *)
  Definition no_action_dropped : Prop :=
    forall aid a, In (aid, a) (p_actions P) -> q_action a <> None.
End QuantCompile.

(* the simplifier is exact (same value, same definedness).  The real Simplifier only REFINES (C11: it may give a value
   where the original has none, e.g. `x/0 > 1 and false`); where it does, the compiled problem is judged by the
   recorded deviation C01-simplified-undefined-read. *)
Definition smp_exact (smp : expr -> expr) : Prop := forall e I, eval false (smp e) I = eval false e I.
