(* C06 / C07, Layer A — StateInvariantsRemover and BoundedTypesRemover.  DEFINITIONS ONLY
   (proofs: Proofs/LayerA_Inv_proofs.v).

   Mirrors (unified_planning/engines/compilers/)
     utils.py                        add_invariant_condition_apply_function_to_problem_expressions (InstantaneousAction
                                     branch, goals):  new_cond = And(preconditions..., condition).simplify(); an action whose
                                     new_cond is FALSE is left out; an And is split into its arguments (add_precondition
                                     skips TRUE and duplicates); the goals get And(goals..., condition).simplify() the same way.
                                     The condition is NOT added after the effects: it is checked before the next action (as
                                     a precondition) and at the end of the plan (as a goal).  The timed parts (fix 9f79310:
                                     no vacuous `true` timed goal) are outside the sequential fragment modelled here.
     state_invariants_remover.py     condition = And(problem.state_invariants).simplify(); the Always(...) trajectory
                                     constraints are removed from the compiled problem
     bounded_types_remover.py        condition = And(lower <= f(args), f(args) <= upper, ... for every ground instance of
                                     every bounded fluent) — exactly [bound_invs P]; the fluents get the unbounded type.
                                     The FluentsSubstituter replaces each bounded Fluent by the unbounded Fluent of the same
                                     name: the identity on this IR, where a fluent is its number.
   FNode.simplify() is external behaviour (C11): the Section variable [smp]. *)
From Coq Require Import List ZArith NArith QArith Qcanon Bool.
Import ListNotations.
Require Import UPV.Core.Expr UPV.Core.Eval UPV.Core.Interp UPV.Planning.Problem UPV.Planning.Sem.
Require Import UPV.Walkers.Subst UPV.Compilers.LayerA_Defs UPV.Compilers.LayerA_Quant.

(* `if new_cond.is_and(): for arg in new_cond.args: add(arg)  else: add(new_cond)` *)
Definition conj_parts (c : expr) : list expr := match c with EAnd l => l | _ => [c] end.

Section InvCompile.
  Variable smp : expr -> expr.

  Definition inv_action (cond : expr) (a : action) : option action :=
    let nc := smp (mkAnd (a_pre a ++ [cond])) in
    if is_false nc then None
    else Some {| a_params := a_params a; a_pre := add_pres (conj_parts nc); a_effs := a_effs a |}.

  Definition inv_goals (cond : expr) (goals : list expr) : list expr :=
    add_goals (conj_parts (smp (mkAnd (goals ++ [cond])))).

  (* ---- StateInvariantsRemover *)
  Definition sir_cond (P : problem) : expr := smp (mkAnd (p_invs P)).

  Definition sir_compile (P : problem) : problem :=
    {| p_objs := p_objs P; p_ifun := p_ifun P; p_fluents := p_fluents P;
       p_actions := map_actions (inv_action (sir_cond P)) (p_actions P);
       p_goals := inv_goals (sir_cond P) (p_goals P);
       p_invs := [] |}.

  (* ---- BoundedTypesRemover *)
  Definition btr_cond (P : problem) : expr := mkAnd (bound_invs P).

  Definition unbound (fd : fdecl) : fdecl :=
    {| fd_id := fd_id fd; fd_sig := fd_sig fd;
       fd_ty := match fd_ty fd with FNum _ _ => FNum None None | t => t end |}.

  Definition btr_compile (P : problem) : problem :=
    {| p_objs := p_objs P; p_ifun := p_ifun P; p_fluents := map unbound (p_fluents P);
       p_actions := map_actions (inv_action (btr_cond P)) (p_actions P);
       p_goals := inv_goals (btr_cond P) (p_goals P);
       p_invs := p_invs P |}.
End InvCompile.

(* ---- hypotheses *)
(* simplification does not change whether a condition holds.  The real Simplifier guarantees one direction (C11: a
   condition that holds still holds after simplification); the other one fails only where simplification makes an
   undefined condition true (x/0 > 1 or true), the recorded deviation C01-simplified-undefined-read. *)
Definition smp_holds (smp : expr -> expr) : Prop := forall e I, holds false I (smp e) = holds false I e.

(* a state invariant does not depend on action parameters (it is a problem-level expression) *)
Definition closed_cond (P : problem) (e : expr) : Prop :=
  forall s pars, holds false (mk_interp P s pars) e = holds false (mk_interp P s []) e.
