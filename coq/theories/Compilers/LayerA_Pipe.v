(* C06 / C07, Layer A — compiler pipelines.  DEFINITIONS ONLY (proofs: Proofs/LayerA_Pipe_proofs.v).

   Mirrors unified_planning/engines/compilers/compilers_pipeline.py
     CompilersPipeline.compile         every compiler is run on the problem produced by the previous one; the
                                       map_back_action_instance functions are collected, REVERSED, and handed to
     map_back_action_instance(action, map_back_functions)
                                       which applies them one after the other and stops with None as soon as one of
                                       them returns None ([mb_chain]);
   and unified_planning/plans/sequential_plan.py
     SequentialPlan.replace_action_instances   the plan-level map back: every step is replaced by its image, a step
                                       whose image is None is dropped ([pback]).

   A [stage] is one compiler run seen abstractly: source problem, compiled problem, the action-instance map back
   (None = auxiliary step, e.g. the goal actions of DisjunctiveConditionsRemover), the number of auxiliary steps a
   compiled plan may need, the relation between the initial state of the source problem and the initial state of the
   compiled problem, and two per-step side conditions (the per-compiler theorems of Props/C06.v / C07.v have side
   conditions on the steps of the plans: [plan_targets_total], [plan_in_tuples]). *)
From Coq Require Import List ZArith NArith QArith Qcanon Bool.
Import ListNotations.
Require Import UPV.Core.Expr UPV.Core.Eval UPV.Core.Interp UPV.Planning.Problem UPV.Planning.Sem.
Require Import UPV.Compilers.Variants UPV.Compilers.LayerA_Defs UPV.Compilers.LayerA_Quant UPV.Compilers.LayerA_Variants.
Require Import UPV.Compilers.LayerA_Ground UPV.Compilers.LayerA_Inv UPV.Compilers.LayerA_Neg.
Local Open Scope nat_scope.

Definition pstep := (N * list value)%type.          (* ActionInstance: action name, actual parameters *)
Definition pplan := list pstep.                     (* SequentialPlan *)

(* SequentialPlan.replace_action_instances(f) *)
Definition ostep (f : pstep -> option pstep) (x : pstep) : pplan :=
  match f x with Some y => [y] | None => [] end.
Definition pback (f : pstep -> option pstep) (pi : pplan) : pplan := flat_map (ostep f) pi.

(* compilers_pipeline.map_back_action_instance: the functions are applied in list order *)
Fixpoint mb_chain (fs : list (pstep -> option pstep)) (x : pstep) : option pstep :=
  match fs with
  | [] => Some x
  | f :: fs' => match f x with Some y => mb_chain fs' y | None => None end
  end.

Record stage := {
  st_src : problem;
  st_dst : problem;
  st_back : pstep -> option pstep;          (* CompilerResult.map_back_action_instance *)
  st_aux : nat;                             (* auxiliary steps a compiled counterpart may add *)
  st_rel : state -> state -> Prop;          (* initial state of the source / of the compiled problem *)
  st_okS : pstep -> Prop;                   (* side condition on the steps of a SOURCE plan (completeness) *)
  st_okD : pstep -> Prop                    (* side condition on the steps of a COMPILED plan (soundness) *)
}.

(* C06 for one stage: a valid compiled plan maps back to a valid source plan *)
Definition stage_sound (st : stage) : Prop :=
  forall s s' pi', st_rel st s s' -> Forall (st_okD st) pi' ->
    valid_plan false (st_dst st) s' pi' = true ->
    valid_plan false (st_src st) s (pback (st_back st) pi') = true.

(* C07 for one stage: every valid source plan has a compiled counterpart, at most [st_aux] steps longer, that maps
   back to it modulo steps that leave the state unchanged ([sub_noop_eq], as in the C07_LA_* theorems) *)
Definition stage_complete (st : stage) : Prop :=
  forall s s' pi, st_rel st s s' -> Forall (st_okS st) pi ->
    valid_plan false (st_src st) s pi = true ->
    exists pi', length pi' <= length pi + st_aux st /\
                valid_plan false (st_dst st) s' pi' = true /\
                Forall (st_okD st) pi' /\
                sub_noop_eq (st_src st) s pi (pback (st_back st) pi').

(* what composing completeness needs on top: for a VALID compiled plan the map back turns "delete steps that change
   nothing in the compiled problem" into "delete steps that change nothing in the source problem" (every compiler of
   Layer A simulates the source problem step by step, which gives this: [sim_noop]; the compilers that move the state
   invariants into preconditions and goals simulate it only along valid plans, hence the validity hypothesis) *)
Definition stage_noop (st : stage) : Prop :=
  forall s s' pi' rho', st_rel st s s' -> Forall (st_okD st) pi' ->
    valid_plan false (st_dst st) s' pi' = true ->
    sub_noop_eq (st_dst st) s' pi' rho' ->
    sub_noop_eq (st_src st) s (pback (st_back st) pi') (pback (st_back st) rho').

Record certified (st : stage) : Prop := {
  cs_sound : stage_sound st;
  cs_complete : stage_complete st;
  cs_noop : stage_noop st
}.

(* two compilers in sequence: [a] first, then [b] on a's output *)
Definition compose (a b : stage) : stage :=
  {| st_src := st_src a;
     st_dst := st_dst b;
     st_back := fun x => match st_back b x with Some y => st_back a y | None => None end;
     st_aux := st_aux a + st_aux b;
     st_rel := fun s0 s2 => exists s1, st_rel a s0 s1 /\ st_rel b s1 s2;
     st_okS := st_okS a;
     st_okD := fun x => st_okD b x /\ match st_back b x with Some y => st_okD a y | None => True end |}.

(* the empty pipeline *)
Definition id_stage (Q : problem) : stage :=
  {| st_src := Q; st_dst := Q; st_back := fun x => Some x; st_aux := 0; st_rel := fun s s' => s = s';
     st_okS := fun _ => True; st_okD := fun _ => True |}.

(* CompilersPipeline([c1; ...; cn]) ending in the problem Q *)
Definition compose_all (l : list stage) (Q : problem) : stage := fold_right compose (id_stage Q) l.

(* the stages fit: each one starts from the problem the previous one produced, and what completeness of one stage
   guarantees about its compiled plan is what the next stage asks of its source plan *)
Fixpoint linked (l : list stage) (Q : problem) : Prop :=
  match l with
  | [] => True
  | a :: r => st_dst a = st_src (compose_all r Q) /\
              (forall x, st_okD a x -> st_okS (compose_all r Q) x) /\
              linked r Q
  end.

(* the map back CompilersPipeline builds: partial(map_back_action_instance, map_back_functions=reversed list) *)
Definition pipeline_back (l : list stage) : pstep -> option pstep := mb_chain (rev (map st_back l)).

(* ------------------------------------------------------------------ the compilers of Layer A as stages *)
(* [plan_targets_total] of LayerA_Quant.v, step by step *)
Definition step_targets_total (P : problem) (x : pstep) : Prop :=
  forall a, lookup_action P (fst x) = Some a -> targets_total P a (snd x).

(* QuantifiersRemover: names and parameters are kept (replace_action with the new_to_old dictionary) *)
Definition quant_stage (smp : expr -> expr) (P : problem) : stage :=
  {| st_src := P; st_dst := quant_compile smp P; st_back := fun x => Some x; st_aux := 0;
     st_rel := fun s s' => s = s' /\ bool_state P s;
     st_okS := step_targets_total P; st_okD := step_targets_total P |}.

(* ConditionalEffectsRemover: a variant is renamed to the action it was made from; G = the set of states on which the
   hypotheses of the C37 theorems hold *)
Definition cer_back (simp_pre : list expr -> option (list expr)) (nm : N -> nat -> N) (P : problem) (x : pstep)
  : option pstep := Some (vt_back (cer_table simp_pre nm P) (fst x), snd x).

Definition cer_stage (simp_pre : list expr -> option (list expr)) (nm : N -> nat -> N) (G : state -> Prop)
  (P : problem) : stage :=
  {| st_src := P; st_dst := cer_compile simp_pre nm P; st_back := cer_back simp_pre nm P; st_aux := 0;
     st_rel := fun s s' => (forall f x, s f x = s' f x) /\ G s;   (* = state_eq s s' of Proofs/Step_proofs.v *)
     st_okS := fun _ => True; st_okD := fun _ => True |}.

(* Grounder: lift_action_instance; a source step must use a parameter tuple the grounder enumerates *)
Definition ground_back (smp : expr -> expr) (tuples : N -> list (list value)) (nm : N -> nat -> N) (P : problem)
  (x : pstep) : option pstep := Some (gt_back (ground_table smp tuples nm P) (fst x)).

Definition ground_stage (smp : expr -> expr) (tuples : N -> list (list value)) (nm : N -> nat -> N)
  (G : state -> Prop) (P : problem) : stage :=
  {| st_src := P; st_dst := ground_compile smp tuples nm P; st_back := ground_back smp tuples nm P; st_aux := 0;
     st_rel := fun s s' => s = s' /\ G s;
     st_okS := fun x => In (snd x) (tuples (fst x)); st_okD := fun _ => True |}.

(* CompilersPipeline([QuantifiersRemover(), ConditionalEffectsRemover()]) — "pipeline:quantifiers+conditional-effects"
   of harness/compcheck.py *)
Definition qc_mid (smp : expr -> expr) (P : problem) : problem := quant_compile smp P.
Definition qc_dst (smp : expr -> expr) (simp_pre : list expr -> option (list expr)) (nm : N -> nat -> N) (P : problem)
  : problem := cer_compile simp_pre nm (qc_mid smp P).
Definition qc_stages (smp : expr -> expr) (simp_pre : list expr -> option (list expr)) (nm : N -> nat -> N)
  (G : state -> Prop) (P : problem) : list stage :=
  [quant_stage smp P; cer_stage simp_pre nm G (qc_mid smp P)].

(* CompilersPipeline([Grounder(), ConditionalEffectsRemover()]) and CompilersPipeline([QuantifiersRemover(), Grounder()]):
   not among the harness' specs, stated to show that the grounder composes on either side *)
Definition gc_stages (smp : expr -> expr) (tuples : N -> list (list value)) (gnm : N -> nat -> N) (G1 : state -> Prop)
  (simp_pre : list expr -> option (list expr)) (nm : N -> nat -> N) (G2 : state -> Prop) (P : problem) : list stage :=
  [ground_stage smp tuples gnm G1 P; cer_stage simp_pre nm G2 (ground_compile smp tuples gnm P)].

(* ------------------------------------------------------------------ further compilers as stages (third round) *)
(* NegativeConditionsRemover: names and parameters kept; the compiled state also holds the negation fluents
   ([neg_rel]: complements) *)
Definition ncr_stage (nmap : list (N * N)) (rw smp : expr -> expr) (P : problem) : stage :=
  {| st_src := P; st_dst := neg_compile nmap rw smp P; st_back := fun x => Some x; st_aux := 0;
     st_rel := neg_rel nmap; st_okS := fun _ => True; st_okD := fun _ => True |}.

(* BoundedTypesRemover / StateInvariantsRemover: names kept, same states; the moved constraints must hold initially
   (exactly the difference of the two verdicts: C06_LA_btr_valid_plan / C06_LA_sir_valid_plan) *)
Definition btr_stage (smp : expr -> expr) (P : problem) : stage :=
  {| st_src := P; st_dst := btr_compile smp P; st_back := fun x => Some x; st_aux := 0;
     st_rel := fun s s' => s = s' /\ all_hold false (mk_interp P s []) (bound_invs P) = true;
     st_okS := fun _ => True; st_okD := fun _ => True |}.

Definition sir_stage (smp : expr -> expr) (P : problem) : stage :=
  {| st_src := P; st_dst := sir_compile smp P; st_back := fun x => Some x; st_aux := 0;
     st_rel := fun s s' => s = s' /\ all_hold false (mk_interp P s []) (p_invs P) = true;
     st_okS := fun _ => True; st_okD := fun _ => True |}.

(* CompilersPipeline([QuantifiersRemover(), NegativeConditionsRemover()]) *)
Definition qn_stages (smp : expr -> expr) (nmap : list (N * N)) (rw smp2 : expr -> expr) (P : problem) : list stage :=
  [quant_stage smp P; ncr_stage nmap rw smp2 (quant_compile smp P)].

(* CompilersPipeline([BoundedTypesRemover(), ConditionalEffectsRemover()]) *)
Definition bc_stages (smp : expr -> expr) (simp_pre : list expr -> option (list expr)) (nm : N -> nat -> N)
  (G : state -> Prop) (P : problem) : list stage :=
  [btr_stage smp P; cer_stage simp_pre nm G (btr_compile smp P)].
