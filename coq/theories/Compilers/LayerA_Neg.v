(* C06 / C07, Layer A — NegativeConditionsRemover.  DEFINITIONS ONLY (proofs: Proofs/LayerA_Neg_proofs.v).

   Mirrors unified_planning/engines/compilers/negative_conditions_remover.py, NegativeConditionsRemover._compile
   (InstantaneousAction branch, goals, state invariants):
     * every precondition / effect condition / goal / invariant body goes through
       NegativeFluentRemover.remove_negative_fluents (Nnf, simplify, then walk_not: `not f(args)` becomes
       `neg_f(args)` for a fresh fluent neg_f of the same signature, `not (a <= b)` becomes `b < a`, ...): [rw];
     * for every fluent f that got a negation fluent ([ng f = Some nf]) every effect on f of every action is MIRRORED by
       an effect on nf with the same target arguments, condition (already rewritten), kind and forall variables and
       the value simplify(Not(value)); the mirrored effects are appended after the action's own effects;
     * nf is declared next to f; initial values are complemented (the initial state is not part of [problem]: the
       theorems take the two initial states related by [neg_rel]).
   External behaviour (Section variables): the expression rewriting [rw] (Nnf is C12's walker, the Simplifier C11's;
   hypothesis [rw_ok]: under "nf = not f" the rewritten condition has the value of the original), the mapping [ng]
   (which fluents occur negated, and the fresh names), FNode.simplify [smp]. *)
From Coq Require Import List ZArith NArith QArith Qcanon Bool.
Import ListNotations.
Require Import UPV.Core.Expr UPV.Core.Eval UPV.Core.Interp UPV.Planning.Problem UPV.Planning.Sem.
Require Import UPV.Walkers.Subst UPV.Compilers.Variants UPV.Compilers.LayerA_Defs UPV.Compilers.LayerA_Quant.

Section NegCompile.
  Variable nmap : list (N * N).      (* NegativeFluentRemover.fluent_mapping: fluent -> its negation fluent *)
  Definition ng (f : N) : option N := lookupN f nmap.
  Definition is_negb (g : N) : bool := existsb (fun p => (snd p =? g)%N) nmap.
  Variable rw : expr -> expr.        (* NegativeFluentRemover.remove_negative_fluents *)
  Variable smp : expr -> expr.       (* env.simplifier.simplify *)

  (* ce.set_condition(remove_negative_fluents(ce.condition)) for the conditional effects *)
  Definition n_effect (e : effect) : effect :=
    if is_uncond e then e else set_cond e (rw (e_cond e)).

  (* Effect(FluentExp(fneg, fl.args), simplify(Not(v)), e.condition, e.kind, e.forall) *)
  Definition mirror (e : effect) : list effect :=
    match ng (e_fl e) with
    | Some nf => [{| e_fl := nf; e_args := e_args e; e_val := smp (mkNot (e_val e)); e_cond := e_cond e;
                     e_kind := e_kind e; e_vars := e_vars e; e_isbool := e_isbool e |}]
    | None => []
    end.

  Definition n_effects (effs : list effect) : list effect :=
    let es := map n_effect effs in es ++ flat_map mirror es.

  Definition n_action (a : action) : action :=
    {| a_params := a_params a; a_pre := add_pres (map rw (a_pre a)); a_effs := n_effects (a_effs a) |}.

  Definition n_fluents (fls : list fdecl) : list fdecl :=
    flat_map (fun fd => fd :: match ng (fd_id fd) with
                              | Some nf => [{| fd_id := nf; fd_sig := fd_sig fd; fd_ty := fd_ty fd |}]
                              | None => []
                              end) fls.

  Definition neg_compile (P : problem) : problem :=
    {| p_objs := p_objs P; p_ifun := p_ifun P; p_fluents := n_fluents (p_fluents P);
       p_actions := map (fun ia => (fst ia, n_action (snd ia))) (p_actions P);
       p_goals := add_goals (map rw (p_goals P));
       p_invs := filter (fun i => negb (is_true i)) (map (fun i => smp (rw i)) (p_invs P)) |}.

  (* ---- the invariant "nf = not f" *)
  Definition compl (v : option value) : option value :=
    match v with Some (VBool b) => Some (VBool (negb b)) | Some _ => None | None => None end.

  Definition neg_rel (s s' : state) : Prop :=
    (forall g args, is_negb g = false -> s' g args = s g args) /\
    (forall f nf args, ng f = Some nf -> s' nf args = compl (s f args)).

  (* ---- decidable side conditions *)
  (* the negation fluents are new and pairwise different, no negation fluent is itself negated *)
  Definition nmap_ok (P : problem) : bool :=
    nodupN (map fst nmap) && nodupN (map snd nmap) &&
    forallb (fun p => negb (is_negb (fst p))) nmap &&
    forallb (fun fd => negb (is_negb (fd_id fd))) (p_fluents P) &&
    forallb (fun p => existsb (fun fd => (fd_id fd =? fst p)%N) (p_fluents P)) nmap &&
    forallb (fun fd => match ng (fd_id fd) with
                       | Some _ => match fd_ty fd with FBool => true | _ => false end
                       | None => true
                       end) (p_fluents P).

  (* no expression of the problem mentions a negation fluent *)
  Fixpoint clean (e : expr) : bool :=
    match e with
    | EBool _ | EInt _ | EReal _ | EObj _ | EParam _ | EVar _ _ => true
    | EFluent f l => negb (is_negb f) && forallb clean l
    | EIFun _ l | EAnd l | EOr l | EPlus l | ETimes l => forallb clean l
    | ENot a | EAlways a | ESometime a | EAtMostOnce a | EExists _ a | EForall _ a => clean a
    | EImplies a b | EIff a b | EMinus a b | EDiv a b | ELe a b | ELt a b | EEquals a b
    | ESometimeBefore a b | ESometimeAfter a b => clean a && clean b
    end.

  Definition effect_clean (e : effect) : bool :=
    negb (is_negb (e_fl e)) && forallb clean (e_args e) && clean (e_val e) && clean (e_cond e).

  Definition problem_clean (P : problem) : bool :=
    forallb (fun ia => forallb clean (a_pre (snd ia)) && forallb effect_clean (a_effs (snd ia))) (p_actions P) &&
    forallb clean (p_goals P) && forallb clean (p_invs P).

  (* ---- the hypothesis the proof forces: in one step, the assignments that fire on one ground instance of a negated
     fluent all carry the same value.  [f := false; if c then f := true] violates it: add-after-delete makes f true,
     and the mirrored pair [nf := true; if c then nf := false] makes nf true as well (finding C06-ncr-add-after-delete).
     Decidable sufficient condition on the problem: within one action all effects on a negated fluent SYMBOL are
     assignments of one and the same Boolean constant. *)
  Definition const_bool (e : expr) : option bool := match e with EBool b => Some b | _ => None end.

  Definition action_safe (a : action) : bool :=
    forallb (fun e => match ng (e_fl e) with
                      | None => true
                      | Some _ =>
                          is_kassign e &&
                          match const_bool (e_val e) with
                          | Some b => forallb (fun e2 => if (e_fl e2 =? e_fl e)%N
                                                         then match const_bool (e_val e2) with
                                                              | Some b2 => Bool.eqb b b2 | None => false end
                                                         else true) (a_effs a)
                          | None => false
                          end
                      end) (a_effs a).

  Definition ncr_safe (P : problem) : bool := forallb (fun ia => action_safe (snd ia)) (p_actions P).

  (* the part of [ncr_safe] that is about single effects: an effect on a negated fluent is an assignment of a Boolean
     constant (so that simplify(Not(value)) is the complemented constant) *)
  Definition action_const (a : action) : bool :=
    forallb (fun e => match ng (e_fl e) with
                      | None => true
                      | Some _ => is_kassign e && match const_bool (e_val e) with Some _ => true | None => false end
                      end) (a_effs a).
  Definition ncr_const (P : problem) : bool := forallb (fun ia => action_const (snd ia)) (p_actions P).
End NegCompile.

(* the semantic part of [ncr_safe] (what the plan-level proof really needs): whenever the preconditions of an action
   instance hold, the effect instances that fire on ONE GROUND negated fluent carry one value.  `at(x) := false;
   at(y) := true` satisfies it in every state in which the preconditions force x <> y; [ncr_safe] (one constant per
   fluent SYMBOL and action) is the decidable sufficient condition. *)
Definition one_value (nmap : list (N * N)) (P : problem) : Prop :=
  forall s aid a args acts, In (aid, a) (p_actions P) ->
    all_hold false (mk_interp P s (zip_params (a_params a) args)) (a_pre a) = true ->
    fired false (mk_interp P s (zip_params (a_params a) args)) (a_effs a) = Some acts ->
    forall x y, In x acts -> In y acts -> ng nmap (fst (ae_key x)) <> None -> ae_key x = ae_key y ->
                ae_val x = ae_val y.

(* a concrete rewriting for examples (and as a reference for the fluent case of walk_not on NNF input):
   `not f(args)` |-> nf(args) when f is mapped, everything else rebuilt *)
Fixpoint nrw (ng : N -> option N) (e : expr) {struct e} : expr :=
  match e with
  | ENot (EFluent f args) => match ng f with Some nf => EFluent nf args | None => e end
  | EAnd l => EAnd (map (nrw ng) l)
  | EOr l => EOr (map (nrw ng) l)
  | _ => e
  end.

(* the expressions on which [nrw] is exact: negations only directly above a fluent that is not a negation fluent,
   everything else free of negation fluents *)
Fixpoint nrw_dom (nmap : list (N * N)) (e : expr) {struct e} : bool :=
  match e with
  | ENot (EFluent f args) => negb (is_negb nmap f) && forallb (clean nmap) args
  | EAnd l | EOr l => forallb (nrw_dom nmap) l
  | _ => clean nmap e
  end.

(* two interpretations related by "nf = not f" (everything else equal) *)
Definition nrel_interp (nmap : list (N * N)) (I I' : interp) : Prop :=
  (forall p, par I' p = par I p) /\ (forall v, var I' v = var I v) /\ (forall f a, ifun I' f a = ifun I f a) /\
  (forall t, objs I' t = objs I t) /\
  (forall g a, is_negb nmap g = false -> fl I' g a = fl I g a) /\
  (forall f nf a, ng nmap f = Some nf -> fl I' nf a = compl (fl I f a)).

Definition conds_of (P : problem) : list expr :=
  flat_map (fun ia => a_pre (snd ia) ++ map e_cond (a_effs (snd ia))) (p_actions P) ++ p_goals P ++ p_invs P.

(* the rewriting is exact on the conditions of the problem (NNF: C12, simplification: C11, walk_not: not f |-> nf is
   exact under the invariant, not (a <= b) |-> b < a, ... are exact on numbers) *)
Definition rw_ok (nmap : list (N * N)) (rw : expr -> expr) (P : problem) : Prop :=
  forall e, In e (conds_of P) -> forall I I', nrel_interp nmap I I' -> eval false (rw e) I' = eval false e I.
