(* C06 / C07, Layer A — definitions shared by the per-compiler models (Compilers/LayerA_*.v). *)
From Coq Require Import List ZArith NArith QArith Qcanon Bool.
Import ListNotations.
Require Import UPV.Core.Expr UPV.Core.Eval UPV.Core.Interp UPV.Planning.Problem UPV.Planning.Sem.
Require Import UPV.Walkers.Subst.

(* a compiler that maps every action to at most one action with the same name (replace_action with a new_to_old
   dictionary: the map-back of a plan is the plan itself) *)
Definition map_actions (q : action -> option action) (l : list (N * action)) : list (N * action) :=
  flat_map (fun ia => match q (snd ia) with Some a' => [(fst ia, a')] | None => [] end) l.

(* action names are unique (Problem.add_action rejects a duplicate name) *)
Definition unique_ids (P : problem) : Prop := NoDup (map fst (p_actions P)).

(* Boolean fluents hold Booleans (or nothing): preserved by every step of the documented semantics *)
Definition bool_state (P : problem) (s : state) : Prop :=
  forall f args, is_bool_fluent P f = true -> bool_or_undef (s f args).
