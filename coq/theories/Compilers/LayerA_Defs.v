(* C06 / C07, Layer A — definitions shared by the per-compiler models (Compilers/LayerA_*.v). *)
From Coq Require Import List ZArith NArith QArith Qcanon Bool.
Import ListNotations.
Require Import UPV.Core.Expr UPV.Core.Eval UPV.Core.Interp UPV.Planning.Problem UPV.Planning.Sem.
Require Import UPV.Walkers.Subst.

(* a compiler that maps every action to at most one action with the same name (replace_action with a new_to_old
   dictionary: the map-back of a plan is the plan itself) *)
Definition map_actions (q : action -> option action) (l : list (N * action)) : list (N * action) :=
  flat_map (fun ia => match q (snd ia) with Some a' => [(fst ia, a')] | None => [] end) l.

(* action names are unique (Problem.add_action rejects a duplicate name) *)
Definition unique_ids (P : problem) : Prop := NoDup (map fst (p_actions P)).

(* Boolean fluents hold Booleans (or nothing): preserved by every step of the documented semantics *)
Definition bool_state (P : problem) (s : state) : Prop :=
  forall f args, is_bool_fluent P f = true -> bool_or_undef (s f args).

(* ------------------------------------------------------------------ compilers that split actions into variants *)
(* the compiled action table with the map back: (compiled action id, original action id, compiled action) *)
Definition vtable := list (N * N * action).

Definition vt_actions (t : vtable) : list (N * action) := map (fun x => (fst (fst x), snd x)) t.

(* CompilerResult.map_back_action_instance on an action name: the original action the variant was made from *)
Definition vt_back (t : vtable) (id' : N) : N :=
  match find (fun x => (fst (fst x) =? id')%N) t with Some x => snd (fst x) | None => id' end.

Definition vt_map_back (t : vtable) (pi' : list (N * list value)) : list (N * list value) :=
  map (fun st => (vt_back t (fst st), snd st)) pi'.

(* [rho] is obtained from [pi] (run from [s]) by deleting some steps that leave the state unchanged (C07's reading of
   "maps back to the same sequence": variants without effects are documented to be discarded) *)
Inductive sub_noop_eq (P : problem) : state -> list (N * list value) -> list (N * list value) -> Prop :=
| sne_nil s : sub_noop_eq P s [] []
| sne_keep s aid args a t pi rho :
    lookup_action P aid = Some a -> spec_step false P s a args = Some t ->
    sub_noop_eq P t pi rho -> sub_noop_eq P s ((aid, args) :: pi) ((aid, args) :: rho)
| sne_drop s aid args a t pi rho :
    lookup_action P aid = Some a -> spec_step false P s a args = Some t -> (forall f x, t f x = s f x) ->
    sub_noop_eq P t pi rho -> sub_noop_eq P s ((aid, args) :: pi) rho.
