(* C06 / C07, Layer A — UndefinedInitialNumericRemover.  DEFINITIONS ONLY (proofs: Proofs/LayerA_Uinr_proofs.v).

   Mirrors unified_planning/engines/compilers/undefined_initial_numeric_remover.py, UndefinedInitialNumericRemover.
   _compile (InstantaneousAction branch of _compile_actions, _compile_goals; durative actions, timed effects / goals and
   quality metrics are outside the sequential fragment of Planning/Problem.v):
     * every numeric fluent SYMBOL with some ground instance without initial value (Problem._fluents_with_undefined_values)
       is "tracked": it gets a default initial value and a Boolean companion `is_value_defined_<f>` of the same
       signature, false by default and true on the explicitly initialised instances.  The initial state is not part of
       [problem]: the theorems take the two initial states related by [uinr_rel] ("the companion says whether the
       original fluent has a value; where it has one the compiled state has the same");
     * [reads] = FreeVarsExtractor.get(exp) filtered by `fluent_exp.fluent() in is_value_defined_fluents` (every
       fluent expression of a tracked symbol, at any depth, quantifier bodies included);
     * _compile_actions: the expressions inspected are preconditions + effect values + the target fluent expression of
       every increase / decrease effect + effect conditions ([a_exprs]); for every tracked fluent expression read there
       the companion applied to THE SAME ARGUMENT EXPRESSIONS is added with add_precondition ([gexp], [add_pre]: TRUE
       and duplicates skipped); for every effect target of a tracked symbol (conditional effects and forall
       effects included) that is not itself among the reads, the effect `companion(args) := true` WITH THE CONDITION AND
       THE FORALL VARIABLES of the assigning effect is appended, once per (target, condition, variables)
       ([track_effect], [dedup_e]; since fix c019d78 - before, the tracker was set unconditionally);
     * _compile_goals: the companions of the tracked fluent expressions read in the goals are added as goals;
     * trajectory constraints (state invariants) are cloned unchanged; the tracked fluents keep their type.
   Python iterates over `set`s where the model uses duplicate-free lists in traversal order: the correspondence
   compares the added preconditions / goals / effects as sets.
   External behaviour: only the fresh names (new_fluent_name), as the table [umap] with the decidable hypothesis
   [umap_ok].  The compiler calls no Simplifier. *)
From Coq Require Import List ZArith NArith QArith Qcanon Bool.
Import ListNotations.
Require Import UPV.Core.Expr UPV.Core.Eval UPV.Core.Interp UPV.Planning.Problem UPV.Planning.Sem.
Require Import UPV.Walkers.Subst UPV.Compilers.Variants UPV.Compilers.LayerA_Defs UPV.Compilers.LayerA_Quant.

Definition fexp := (N * list expr)%type.       (* a fluent expression: symbol and argument expressions *)
Definition fexp_eqb (a b : fexp) : bool := (fst a =? fst b)%N && list_expr_eqb (snd a) (snd b).

Fixpoint dedup_f (l : list fexp) : list fexp :=
  match l with
  | [] => []
  | x :: l' => x :: filter (fun y => negb (fexp_eqb x y)) (dedup_f l')
  end.

Definition effect_eqb (a b : effect) : bool :=
  (e_fl a =? e_fl b)%N && list_expr_eqb (e_args a) (e_args b) && expr_eqb (e_val a) (e_val b) &&
  expr_eqb (e_cond a) (e_cond b) &&
  match e_kind a, e_kind b with KAssign, KAssign | KInc, KInc | KDec, KDec => true | _, _ => false end &&
  vars_eqb (e_vars a) (e_vars b) && Bool.eqb (e_isbool a) (e_isbool b).

(* the `added_trackers` set: one tracker per (target, condition, forall variables) *)
Fixpoint dedup_e (l : list effect) : list effect :=
  match l with
  | [] => []
  | x :: l' => x :: filter (fun y => negb (effect_eqb x y)) (dedup_e l')
  end.

Definition is_nil {A} (l : list A) : bool := match l with [] => true | _ => false end.

Section UinrCompile.
  Variable umap : list (N * N).      (* is_value_defined_fluents: tracked numeric fluent -> its companion *)
  Definition ucomp (f : N) : option N := lookupN f umap.
  Definition is_ucomp (g : N) : bool := existsb (fun p => (snd p =? g)%N) umap.

  (* self._fve.get(exp), restricted to the tracked symbols *)
  Fixpoint reads (e : expr) : list fexp :=
    match e with
    | EBool _ | EInt _ | EReal _ | EObj _ | EParam _ | EVar _ _ => []
    | EFluent f l => flat_map reads l ++ match ucomp f with Some _ => [(f, l)] | None => [] end
    | EIFun _ l | EAnd l | EOr l | EPlus l | ETimes l => flat_map reads l
    | ENot a | EAlways a | ESometime a | EAtMostOnce a | EExists _ a | EForall _ a => reads a
    | EImplies a b | EIff a b | EMinus a b | EDiv a b | ELe a b | ELt a b | EEquals a b
    | ESometimeBefore a b | ESometimeAfter a b => reads a ++ reads b
    end.

  (* is_value_defined_fluents[fluent_exp.fluent()] applied to fluent_exp.args  -- the guard *)
  Definition gexp (r : fexp) : expr :=
    match ucomp (fst r) with Some d => EFluent d (snd r) | None => EBool true end.

  (* [eff.fluent for eff in action.effects if eff.is_increase() or eff.is_decrease()] *)
  Definition inc_targets (effs : list effect) : list expr :=
    flat_map (fun e => match e_kind e with KAssign => [] | _ => [EFluent (e_fl e) (e_args e)] end) effs.

  Definition a_exprs (a : action) : list expr :=
    a_pre a ++ map e_val (a_effs a) ++ inc_targets (a_effs a) ++ map e_cond (a_effs a).

  Definition a_reads (a : action) : list fexp := flat_map reads (a_exprs a).          (* undef_fluent_exps *)

  (* action.add_effect(is_value_defined applied to the args, True, eff.condition, eff.forall) for every effect whose
     target is a tracked fluent expression that is not among the reads *)
  Definition mk_tracker (d : N) (e : effect) : effect :=
    {| e_fl := d; e_args := e_args e; e_val := EBool true; e_cond := e_cond e; e_kind := KAssign;
       e_vars := e_vars e; e_isbool := true |}.

  Definition track_effect (a : action) (e : effect) : list effect :=
    match ucomp (e_fl e) with
    | Some d => if existsb (fexp_eqb (e_fl e, e_args e)) (a_reads a) then [] else [mk_tracker d e]
    | None => []
    end.

  Definition u_action (a : action) : action :=
    {| a_params := a_params a;
       a_pre := fold_left add_pre (map gexp (dedup_f (a_reads a))) (a_pre a);
       a_effs := a_effs a ++ dedup_e (flat_map (track_effect a) (a_effs a)) |}.

  Definition sig_of (P : problem) (f : N) : list N :=
    match find (fun fd => (fd_id fd =? f)%N) (p_fluents P) with Some fd => fd_sig fd | None => [] end.

  Definition u_fluents (P : problem) : list fdecl :=
    p_fluents P ++ map (fun p => {| fd_id := snd p; fd_sig := sig_of P (fst p); fd_ty := FBool |}) umap.

  Definition u_goals (gs : list expr) : list expr :=
    gs ++ map gexp (dedup_f (flat_map reads gs)).

  Definition uinr_compile (P : problem) : problem :=
    {| p_objs := p_objs P; p_ifun := p_ifun P; p_fluents := u_fluents P;
       p_actions := map (fun ia => (fst ia, u_action (snd ia))) (p_actions P);
       p_goals := u_goals (p_goals P);
       p_invs := p_invs P |}.

  (* ---- the state relation: [s] the original state (None = no value), [s'] the compiled one *)
  Definition uinr_rel (s s' : state) : Prop :=
    (forall g args, ucomp g = None -> is_ucomp g = false -> s' g args = s g args) /\
    (forall f d args, ucomp f = Some d ->
       match s f args with
       | Some v => s' f args = Some v /\ s' d args = Some (VBool true)
       | None => s' d args = Some (VBool false)          (* s' f args = the default value: never looked at *)
       end).

  (* the same on interpretations (parameters, variables, interpreted functions, objects equal) *)
  Definition urel_interp (I I' : interp) : Prop :=
    (forall p, par I' p = par I p) /\ (forall v, var I' v = var I v) /\ (forall f a, ifun I' f a = ifun I f a) /\
    (forall t, objs I' t = objs I t) /\ uinr_rel (fl I) (fl I').

  (* ---- decidable side conditions *)
  (* the companions are new, pairwise different names; a tracked fluent is not a companion; tracked fluents are
     declared without bounds (a bounded fluent without value violates `lo <= f` of Problem.bound_invs in the model of the
     documented semantics, its default value in the compiled problem need not) *)
  Definition umap_ok (P : problem) : bool :=
    nodupN (map fst umap) && nodupN (map snd umap) &&
    forallb (fun p => negb (is_ucomp (fst p))) umap &&
    forallb (fun fd => negb (is_ucomp (fd_id fd))) (p_fluents P) &&
    forallb (fun fd => match ucomp (fd_id fd) with
                       | Some _ => match fd_ty fd with FNum None None => true | _ => false end
                       | None => true
                       end) (p_fluents P).

  (* [uq e]: no companion is mentioned, and no tracked fluent is read inside a quantifier body.  (A tracked fluent
     expression under a quantifier makes the real compiler raise UPUnboundedVariablesError when its arguments mention
     the bound variable - finding C08-uinr-quantified-read-raises - and is a guard that is too strong otherwise:
     an empty domain never evaluates the body.) *)
  Fixpoint uq (e : expr) : bool :=
    match e with
    | EBool _ | EInt _ | EReal _ | EObj _ | EParam _ | EVar _ _ => true
    | EFluent f l => negb (is_ucomp f) && forallb uq l
    | EIFun _ l | EAnd l | EOr l | EPlus l | ETimes l => forallb uq l
    | ENot a | EAlways a | ESometime a | EAtMostOnce a => uq a
    | EExists _ a | EForall _ a => uq a && is_nil (reads a)
    | EImplies a b | EIff a b | EMinus a b | EDiv a b | ELe a b | ELt a b | EEquals a b
    | ESometimeBefore a b | ESometimeAfter a b => uq a && uq b
    end.

  (* mentions neither a tracked fluent nor a companion *)
  Definition upure (e : expr) : bool := uq e && is_nil (reads e).

  (* The positions where the guards of the real compiler are EXACT:
       - preconditions, goals: anywhere outside quantifiers (under negation, inside arithmetic, in fluent arguments:
         evaluation is strict, a top-level guard is equivalent);
       - the value of an UNCONDITIONAL effect without forall variables, the condition of an effect without forall
         variables, the target of an unconditional increase / decrease;
       - a CONDITIONAL ASSIGNMENT to a tracked fluent whose value reads no tracked fluent (since fix c019d78);
     and where they are NOT (refuted, see Proofs/LayerA_Uinr_proofs.v):
       - the value of a conditional effect / a conditional increase of a tracked fluent (guard required although the
         effect may not fire: incomplete, finding C07-uinr-guard-on-conditional-read);
     target arguments must not read tracked fluents (the read is not guarded by the compiler); effects with forall
     variables (outside the compiler's supported kind) must not touch tracked fluents. *)
  Definition effect_ok (e : effect) : bool :=
    negb (is_ucomp (e_fl e)) && forallb upure (e_args e) && uq (e_val e) && uq (e_cond e) &&
    (if is_uncond e && is_nil (e_vars e) then true
     else upure (e_val e) &&
          (if is_nil (e_vars e)
           then match ucomp (e_fl e) with Some _ => is_kassign e | None => true end
           else match ucomp (e_fl e) with Some _ => false | None => true end && upure (e_cond e))).

  Definition action_ok (a : action) : bool := forallb uq (a_pre a) && forallb effect_ok (a_effs a).

  Definition uinr_ok (P : problem) : bool :=
    umap_ok P && forallb (fun ia => action_ok (snd ia)) (p_actions P) &&
    forallb uq (p_goals P) && forallb upure (p_invs P).
End UinrCompile.

(* get_default_initial_values: the smallest constant assigned (by an assignment effect, conditional or not) to the
   tracked symbol anywhere in the problem, 0 when there is none *)
Definition const_num (e : expr) : option Qc :=
  match e with EInt z => Some (zq z) | EReal q => Some q | _ => None end.

Definition default_value (P : problem) (f : N) : Qc :=
  let cs := flat_map (fun ia => flat_map (fun e => if (e_fl e =? f)%N && is_kassign e
                                                   then match const_num (e_val e) with Some q => [q] | None => [] end
                                                   else []) (a_effs (snd ia))) (p_actions P) in
  match cs with
  | [] => zq 0
  | c :: cs' => fold_left (fun m q => if qc_leb q m then q else m) cs' c
  end.
