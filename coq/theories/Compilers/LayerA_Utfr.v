(* C06 / C07, Layer A — UsertypeFluentsRemover.  DEFINITIONS ONLY (proofs: Proofs/LayerA_Utfr_proofs.v).

   Mirrors unified_planning/engines/compilers/usertype_fluents_remover.py
       UsertypeFluentsRemover._compile   (fluent declarations, InstantaneousAction branch, goals, state invariants =
                                          Always(...) trajectory constraints; the initial state is not part of [problem]:
                                          the theorems take two initial states related by [utfr_rel], [enc_state] is the
                                          encoding the loop over problem.initial_values builds)
       UsertypeFluentsRemover._convert_effect
   and unified_planning/model/walkers/usertype_fluents_walker.py (UsertypeFluentsWalker) for the FLAT fragment
   ([utr] below: an object fluent is read only as a side of an equality, with objects / parameters / variables as
   arguments).

   The compiler replaces a fluent  o(x) : T  (T a user type) by the Boolean fluent  o(x, u)  of the SAME name
   ("o(x) = u"), every condition c by walker(c).simplify(), and an effect  o(x) := v  by, for every object u of T
   (itertools.product over problem.objects(T), Python level, not a forall effect),
       o(x, u) := TRUE  if  cond and test_u          o(x, u) := FALSE  if  cond and not test_u
   where test_u = (v == u), or q(y, u) when v is the object fluent q(y); a test that simplifies to a constant gives the
   single effect o(x, u) := constant if cond; an effect whose condition simplifies to FALSE is left out.  A Boolean
   effect b := v with a non-constant value is split in the same way (the code tests "type is bool and not constant").
   An action whose converted effects raise UPConflictingEffectsException is left out (Variants.add_effs_ok).

   External behaviour (Section variables):
     [tr]   UsertypeFluentsWalker.remove_usertype_fluents_from_condition (fresh variable names, set iteration orders and
            its final simplify() included); hypothesis [tr_ok]: under the encoding invariant the translated condition has
            the value and the definedness of the original.  [utr] is the reference translation of the flat fragment, for
            which [tr_ok] is PROVED (Proofs: utr_exact).
     [smp]  FNode.simplify(); hypothesis LayerA_Quant.smp_exact. *)
From Coq Require Import List ZArith NArith QArith Qcanon Bool.
Import ListNotations.
Require Import UPV.Core.Expr UPV.Core.Eval UPV.Core.Interp UPV.Planning.Problem UPV.Planning.Sem.
Require Import UPV.Walkers.Subst UPV.Compilers.Variants UPV.Compilers.LayerA_Defs UPV.Compilers.LayerA_Quant.

(* fluents_map: the fluents of user type, with their type *)
Definition olist (P : problem) : list (N * N) :=
  flat_map (fun fd => match fd_ty fd with FObj t => [(fd_id fd, t)] | _ => [] end) (p_fluents P).
Definition otype (P : problem) (f : N) : option N := lookupN f (olist P).

(* Fluent(fluent.name, BoolType(), signature + [Parameter(new_param_name, fluent.type)]) *)
Definition u_fd (fd : fdecl) : fdecl :=
  match fd_ty fd with
  | FObj t => {| fd_id := fd_id fd; fd_sig := fd_sig fd ++ [t]; fd_ty := FBool |}
  | _ => fd
  end.

(* ------------------------------------------------------------------ the encoding invariant *)
(* two interpretations related by "o(x, u) is true iff o(x) = u, for the objects u of o's type; o(x, _) has no value iff
   o(x) has none"; the value of an object fluent is an object of its type *)
Definition urel_interp (ot : N -> option N) (I I' : interp) : Prop :=
  (forall p, par I' p = par I p) /\ (forall v, var I' v = var I v) /\ (forall f a, ifun I' f a = ifun I f a) /\
  (forall t, objs I' t = objs I t) /\
  (forall g a, ot g = None -> fl I' g a = fl I g a) /\
  (forall f t a, ot f = Some t ->
     match fl I f a with
     | Some (VObj c) => In c (objs I t) /\
                        forall u, In u (objs I t) -> fl I' f (a ++ [VObj u]) = Some (VBool (c =? u)%N)
     | Some _ => False
     | None => forall u, In u (objs I t) -> fl I' f (a ++ [VObj u]) = None
     end).

Definition utfr_rel (P : problem) (s s' : state) : Prop :=
  (forall g a, otype P g = None -> s' g a = s g a) /\
  (forall f t a, otype P f = Some t ->
     match s f a with
     | Some (VObj c) => In c (objs_of P t) /\
                        forall u, In u (objs_of P t) -> s' f (a ++ [VObj u]) = Some (VBool (c =? u)%N)
     | Some _ => False
     | None => forall u, In u (objs_of P t) -> s' f (a ++ [VObj u]) = None
     end).

(* the loop over problem.initial_values: new_problem.set_initial_value(o(x, obj), obj == value_obj) *)
Definition split_last (l : list value) : option (list value * value) :=
  match rev l with [] => None | x :: r => Some (rev r, x) end.

Definition enc_state (P : problem) (s : state) : state :=
  fun f args =>
    match otype P f with
    | None => s f args
    | Some _ =>
        match split_last args with
        | Some (a, VObj u) => match s f a with Some (VObj c) => Some (VBool (c =? u)%N) | _ => None end
        | _ => None
        end
    end.

(* ------------------------------------------------------------------ expressions *)
(* no object fluent is mentioned (such expressions are rebuilt unchanged by the walker) *)
Fixpoint uclean (ot : N -> option N) (e : expr) : bool :=
  match e with
  | EBool _ | EInt _ | EReal _ | EObj _ | EParam _ | EVar _ _ => true
  | EFluent f l => match ot f with None => forallb (uclean ot) l | Some _ => false end
  | EIFun _ l | EAnd l | EOr l | EPlus l | ETimes l => forallb (uclean ot) l
  | ENot a | EAlways a | ESometime a | EAtMostOnce a | EExists _ a | EForall _ a => uclean ot a
  | EImplies a b | EIff a b | EMinus a b | EDiv a b | ELe a b | ELt a b | EEquals a b
  | ESometimeBefore a b | ESometimeAfter a b => uclean ot a && uclean ot b
  end.

(* objects, parameters and variables other than the fresh variable [v] (the arguments of an effect target: Effect.__init__
   rejects fluents inside them) *)
Definition simple_term (v : N) (e : expr) : bool :=
  match e with EObj _ | EParam _ => true | EVar w _ => negb (w =? v)%N | _ => false end.

Section UtfrExpr.
  Variable ot : N -> option N.
  (* walk_fluent_exp: the fresh Variable for a read of the fluent (named "<fluent>_<type>", made fresh by
     _get_fresh_name; the scopes of two flat reads are disjoint, so one name per fluent is enough for the semantics) *)
  Variable fv : N -> N.

  (* walk_fluent_exp + walk_equals on a flat read:
     Equals(o(a), t)  |->  Exists (v : T) . And(Equals(v, t), o(a, v)) *)
  Definition flat_read (f : N) (a : list expr) (t : expr) (swap : bool) : option expr :=
    match ot f with
    | Some ty =>
        if forallb (simple_term (fv f)) a && simple_term (fv f) t
        then let v := EVar (fv f) ty in
             Some (EExists [(fv f, ty)]
                     (EAnd [if swap then EEquals t v else EEquals v t; EFluent f (a ++ [v])]))
        else None
    | None => None
    end.

  (* UsertypeFluentsWalker.walk on the flat fragment: Boolean structure rebuilt, flat reads as above, everything else
     (expressions without object fluents) unchanged *)
  Fixpoint utr (e : expr) {struct e} : expr :=
    match e with
    | EAnd l => EAnd (map utr l)
    | EOr l => EOr (map utr l)
    | ENot a => ENot (utr a)
    | EImplies a b => EImplies (utr a) (utr b)
    | EIff a b => EIff (utr a) (utr b)
    | EExists vs a => EExists vs (utr a)
    | EForall vs a => EForall vs (utr a)
    | EEquals (EFluent f a) t =>
        match flat_read f a t false with Some x => x | None => e end
    | EEquals t (EFluent f a) =>
        match flat_read f a t true with Some x => x | None => e end
    | _ => e
    end.

  (* the flat fragment *)
  Fixpoint flat (e : expr) {struct e} : bool :=
    match e with
    | EAnd l | EOr l => forallb flat l
    | ENot a => flat a
    | EImplies a b | EIff a b => flat a && flat b
    | EExists _ a | EForall _ a => flat a
    | EEquals (EFluent f a) t =>
        match ot f with
        | Some _ => forallb (simple_term (fv f)) a && simple_term (fv f) t
        | None => uclean ot e
        end
    | EEquals t (EFluent f a) =>
        match ot f with
        | Some _ => forallb (simple_term (fv f)) a && simple_term (fv f) t
        | None => uclean ot e
        end
    | _ => uclean ot e
    end.
End UtfrExpr.

(* ------------------------------------------------------------------ effects and the problem *)
Definition is_bconst (e : expr) : bool := match e with EBool _ => true | _ => false end.

Definition mk_eff (f : N) (args : list expr) (v c : expr) (k : ekind) (vars : list (N * N)) (isb : bool) : effect :=
  {| e_fl := f; e_args := args; e_val := v; e_cond := c; e_kind := k; e_vars := vars; e_isbool := isb |}.

Section UtfrCompile.
  Variable tr : expr -> expr.     (* remove_usertype_fluents_from_condition *)
  Variable smp : expr -> expr.    (* FNode.simplify() *)
  Variable P : problem.
  Let ot := otype P.

  (* em.And(new_condition, em.And(condition_to_add, x).substitute(subs)).simplify()  with condition_to_add = em.And() =
     TRUE (nothing is nested in the flat fragment) *)
  Definition cond_and (c x : expr) : expr := smp (EAnd [c; EAnd [EBool true; x]]).
  (* em.And(new_condition, condition_to_add).substitute(subs).simplify() *)
  Definition cond_only (c : expr) : expr := smp (EAnd [c; EBool true]).

  (* the body of the loop over the object tuples, for one target [f(args)] and one (simplified) value [v]:
     "type is bool and not a constant" => a positive and a negative conditional effect with constant values;
     otherwise one effect.  `not cond.is_constant() or cond.bool_constant_value()` = the condition is not FALSE *)
  Definition split_eff (f : N) (args : list expr) (v c : expr) (k : ekind) (vars : list (N * N)) (isb : bool)
    : list effect :=
    if isb && negb (is_bconst v)
    then (let cp := cond_and c v in if is_false cp then [] else [mk_eff f args (EBool true) cp k vars true]) ++
         (let cn := cond_and c (mkNot v) in if is_false cn then [] else [mk_eff f args (EBool false) cn k vars true])
    else (let c' := cond_only c in if is_false c' then [] else [mk_eff f args v c' k vars isb]).

  (* new_value for the object u: Equals(value, var)[var := u], or the value's Boolean fluent q(y, var)[var := u] when the
     value is itself an object fluent q(y) *)
  Definition vtest (val : expr) (u : N) : expr :=
    match val with
    | EFluent q b => match ot q with Some _ => EFluent q (b ++ [EObj u]) | None => EEquals val (EObj u) end
    | _ => EEquals val (EObj u)
    end.

  (* _convert_effect (flat fragment: no forall variables, the value has no nested object fluent) *)
  Definition u_effect (e : effect) : list effect :=
    match ot (e_fl e) with
    | Some t =>
        flat_map (fun u => split_eff (e_fl e) (map smp (e_args e ++ [EObj u])) (smp (vtest (e_val e) u))
                                     (tr (e_cond e)) (e_kind e) (e_vars e) true)
                 (objs_of P t)
    | None => split_eff (e_fl e) (map smp (e_args e)) (smp (e_val e)) (tr (e_cond e)) (e_kind e) (e_vars e) (e_isbool e)
    end.

  Definition u_effects (effs : list effect) : list effect := flat_map u_effect effs.

  (* None: _add_effect_instance raised UPConflictingEffectsException (`continue`: the action is left out) *)
  Definition u_action (a : action) : option action :=
    let effs := u_effects (a_effs a) in
    if add_effs_ok [] [] effs
    then Some {| a_params := a_params a; a_pre := add_pres (map tr (a_pre a)); a_effs := effs |}
    else None.

  Definition utfr_compile : problem :=
    {| p_objs := p_objs P; p_ifun := p_ifun P; p_fluents := map u_fd (p_fluents P);
       p_actions := map_actions u_action (p_actions P);
       p_goals := add_goals (map tr (p_goals P));
       p_invs := filter (fun i => negb (is_true i)) (map tr (p_invs P)) |}.

  (* ---- the modelled fragment and the decidable side conditions *)
  (* the value of an effect on an object fluent: an object fluent of the same type applied to fluent-free arguments, or
     an expression without object fluents *)
  Definition val_flat (t : N) (v : expr) : bool :=
    match v with
    | EFluent q b => match ot q with
                     | Some t' => (t' =? t)%N && forallb (uclean ot) b
                     | None => uclean ot v
                     end
    | _ => uclean ot v
    end.

  Definition eff_flat (e : effect) : bool :=
    forallb (uclean ot) (e_args e) &&
    match e_vars e with [] => true | _ => false end &&
    match ot (e_fl e) with
    | Some t => is_kassign e && val_flat t (e_val e)
    | None => uclean ot (e_val e)
    end.

  (* an object fluent is not also declared Boolean (fluent names are unique) *)
  Definition decls_ok : bool :=
    forallb (fun fd => match fd_ty fd with
                       | FObj _ => negb (is_bool_fluent P (fd_id fd))
                       | _ => match ot (fd_id fd) with None => true | Some _ => false end
                       end) (p_fluents P).

  Definition utfr_wf : bool :=
    decls_ok &&
    forallb (fun ia => forallb eff_flat (a_effs (snd ia)) &&
                       match u_action (snd ia) with Some _ => true | None => false end) (p_actions P).

  (* ---- hypotheses on the reachable states (G) *)
  Definition conds_of_u : list expr :=
    flat_map (fun ia => a_pre (snd ia) ++ map e_cond (a_effs (snd ia))) (p_actions P) ++ p_goals P ++ p_invs P.

  (* the walker is exact on the conditions of the problem under the invariant *)
  Definition tr_ok : Prop :=
    forall e, In e conds_of_u -> forall I I', urel_interp ot I I' -> objs I = objs_of P ->
      eval false (tr e) I' = eval false e I.

  (* in the states of G every effect of every action is well defined and well typed: target arguments, condition
     (a Boolean) and value (an object of the target's type for an object fluent, a Boolean for a Boolean fluent) have a
     value, whether or not the effect fires.  (The compiled conditions are conjunctions `cond and test`, which the strict
     semantics evaluates completely.)  True of total, well-typed states and type-checked effects without division. *)
  Definition eff_defined (I : interp) (e : effect) : Prop :=
    (exists vs, evals_l false I (e_args e) = Some vs) /\
    (exists b, eval false (e_cond e) I = Some (VBool b)) /\
    (exists v, eval false (e_val e) I = Some v /\
               match ot (e_fl e) with
               | Some t => exists w, v = VObj w /\ In w (objs I t)
               | None => if e_isbool e then exists b, v = VBool b else True
               end).

  Definition effects_defined (G : state -> Prop) : Prop :=
    forall s i a args e, G s -> In (i, a) (p_actions P) -> In e (a_effs a) ->
      all_hold false (mk_interp P s (zip_params (a_params a) args)) (a_pre a) = true ->
      eff_defined (mk_interp P s (zip_params (a_params a) args)) e.

  (* THE hypothesis that excludes the recorded unsound shape (finding C06-utfr-masked-object-conflict): the assignments
     that fire on one ground object fluent in one step carry one value.  Two different objects make the original step
     fail (conflicting assignments), while their Boolean encodings o(x,a) := true / o(x,b) := true only meet o(x,a) :=
     false / o(x,b) := false as add-after-delete. *)
  Definition one_value (G : state -> Prop) : Prop :=
    forall s i a args acts f t x v1 v2, G s -> In (i, a) (p_actions P) ->
      fired false (mk_interp P s (zip_params (a_params a) args)) (a_effs a) = Some acts ->
      ot f = Some t -> In v1 (avals (f, x) acts) -> In v2 (avals (f, x) acts) -> v1 = v2.

  Definition closed (G : state -> Prop) : Prop :=
    forall s aid a args t, G s -> lookup_action P aid = Some a -> spec_step false P s a args = Some t -> G t.
End UtfrCompile.

(* the hypotheses under which the reference walker [utr] is exact ([tr_ok], Proofs: utr_tr_ok): every condition of the
   problem lies in the flat fragment, and the type of every object fluent has an object *)
Definition conds_flat (P : problem) (fv : N -> N) : bool := forallb (flat (otype P) fv) (conds_of_u P).
Definition types_inhabited (P : problem) : bool :=
  forallb (fun ft => match objs_of P (snd ft) with [] => false | _ => true end) (olist P).

(* a decidable sufficient condition for [one_value]: inside one action no two effects target the same object fluent
   SYMBOL (together with "no forall variables" of [eff_flat]: at most one assignment fires per object fluent) *)
Definition obj_assigned_once (P : problem) : bool :=
  forallb (fun ia =>
             nodupN (flat_map (fun e => match otype P (e_fl e) with Some _ => [e_fl e] | None => [] end)
                              (a_effs (snd ia))))
          (p_actions P).
