(* C37 — the action splitting shared by the (multi-agent) conditional-effects remover and the (multi-agent)
   disjunctive-conditions remover.  Definitions only.

   Mirrors (unified_planning/engines/compilers/):
     conditional_effects_remover.py   ConditionalEffectsRemover._create_unconditional_actions (InstantaneousAction
                                      branch) — called unchanged by MAConditionalEffectsRemover._compile for every
                                      conditional action of every agent;
     utils.py                         check_and_simplify_preconditions (the Simplifier is NOT modelled: the step reads
                                      preconditions only through all_hold — step_pre_ext — and the harness compares the
                                      simplified preconditions with the model's on every state);
     disjunctive_conditions_remover.py DisjunctiveConditionsRemover._create_non_disjunctive_actions /
                                      _create_new_action_with_given_precond / the fake-goal achievers of
                                      _goals_without_disjunctions_adding_new_elements — called by
                                      MADisjunctiveConditionsRemover._compile for every action of every agent and (its own
                                      copy, _ma_goals_without_disjunctions_adding_new_elements) for every goal;
     model/effect.py                  check_conflicting_effects (as called by _add_effect_instance on the variant).

   A multi-agent action is read in its agent's *flattened view*: the agent's own fluent f and Dot(agent, f) are one
   numbered fluent, Dot(other, g) another, environment fluents others (harness/props/c37.py: Flat).  After that an
   agent's action is a plain [action] of Planning/Problem.v and the semantics is [spec_step] of Planning/Sem.v. *)
From Coq Require Import List ZArith NArith QArith Qcanon Bool.
Import ListNotations.
Require Import UPV.Core.Expr UPV.Core.Eval UPV.Core.Interp UPV.Planning.Problem UPV.Planning.Sem.

(* ------------------------------------------------------------------ effects *)
(* Effect.is_conditional():  not self._condition.is_true() *)
Definition is_uncond (e : effect) : bool := is_true (e_cond e).

(* action.unconditional_effects / action.conditional_effects: order preserving filters *)
Definition uncond_effs (effs : list effect) : list effect := filter is_uncond effs.
Definition cond_effs (effs : list effect) : list effect := filter (fun e => negb (is_uncond e)) effs.

Definition set_cond (e : effect) (c : expr) : effect :=
  {| e_fl := e_fl e; e_args := e_args e; e_val := e_val e; e_cond := c; e_kind := e_kind e; e_vars := e_vars e;
     e_isbool := e_isbool e |}.

(* up.model.Effect(e.fluent, e.value, TRUE(), e.kind, e.forall) *)
Definition strip_cond (e : effect) : effect := set_cond e (EBool true).

(* ------------------------------------------------------------------ conditional-effects splitting *)
(* A selection has one flag per conditional effect (in the order of action.conditional_effects): the subset p of
   powerset(range(len(cond_effects))) as its characteristic vector.  The model enumerates the vectors in binary order;
   the code enumerates subsets by size (itertools.combinations).  The order only decides the fresh names, which the
   correspondence ignores (Corr_C37 matches variants irrespective of order). *)
Fixpoint all_sels (n : nat) : list (list bool) :=
  match n with
  | O => [[]]
  | S n' => map (cons false) (all_sels n') ++ map (cons true) (all_sels n')
  end.

(* the preconditions added for the selection: e.condition when i in p, Not(e.condition) otherwise
   (ExpressionManager.Not removes a double negation = mkNot) *)
Fixpoint sel_pre (ces : list effect) (sel : list bool) : list expr :=
  match ces, sel with
  | e :: ces', b :: sel' => (if b then e_cond e else mkNot (e_cond e)) :: sel_pre ces' sel'
  | _, _ => []
  end.

(* the effects added for the selection: the selected conditional effects without their condition *)
Fixpoint sel_effs (ces : list effect) (sel : list bool) : list effect :=
  match ces, sel with
  | e :: ces', b :: sel' => (if b then [strip_cond e] else []) ++ sel_effs ces' sel'
  | _, _ => []
  end.

(* new_action before check_and_simplify_preconditions.  add_precondition skips TRUE and duplicates; both are invisible
   to [all_hold], and the implementation's list is only observable after simplification anyway. *)
Definition ce_variant (a : action) (sel : list bool) : action :=
  {| a_params := a_params a;
     a_pre := a_pre a ++ sel_pre (cond_effs (a_effs a)) sel;
     a_effs := uncond_effs (a_effs a) ++ sel_effs (cond_effs (a_effs a)) sel |}.

Definition ce_sels (a : action) : list (list bool) := all_sels (length (cond_effs (a_effs a))).
Definition ce_variants (a : action) : list action := map (ce_variant a) (ce_sels a).

(* ---- check_conflicting_effects as run by _add_effect_instance while the variant's effects are added in order.
   Only unconditional effects on non-Boolean fluents take part; targets and values are compared as FNodes
   (structural equality under hash-consing), two constants also by value (Int 1 vs Real 1). *)
Definition tgt := (N * list expr)%type.
Definition tgt_eqb (x y : tgt) : bool := (fst x =? fst y)%N && list_expr_eqb (snd x) (snd y).
Definition e_tgt (e : effect) : tgt := (e_fl e, e_args e).

(* FNode.is_constant(): Bool / Int / Real constants and object expressions *)
Definition const_val (x : expr) : option value :=
  match x with
  | EBool b => Some (VBool b)
  | EInt z => Some (VNum (zq z))
  | EReal q => Some (VNum q)
  | EObj o => Some (VObj o)
  | _ => None
  end.

(* negation of: assigned_value != effect.value and not (both constant and constant_value() equal) *)
Definition same_value (x y : expr) : bool :=
  expr_eqb x y || match const_val x, const_val y with Some u, Some v => value_eqb u v | _, _ => false end.

Fixpoint fa_lookup (t : tgt) (fa : list (tgt * expr)) : option expr :=
  match fa with
  | [] => None
  | (t', v) :: fa' => if tgt_eqb t t' then Some v else fa_lookup t fa'
  end.

Definition is_kassign (e : effect) : bool := match e_kind e with KAssign => true | _ => false end.

(* true = every _add_effect_instance succeeded; false = UPConflictingEffectsException *)
Fixpoint add_effs_ok (fa : list (tgt * expr)) (fid : list tgt) (es : list effect) : bool :=
  match es with
  | [] => true
  | e :: es' =>
      if is_uncond e && negb (e_isbool e) then
        if is_kassign e then
          if existsb (tgt_eqb (e_tgt e)) fid then false
          else match fa_lookup (e_tgt e) fa with
               | Some v => if same_value v (e_val e) then add_effs_ok fa fid es' else false
               | None => add_effs_ok ((e_tgt e, e_val e) :: fa) fid es'
               end
        else
          if match fa_lookup (e_tgt e) fa with Some _ => true | None => false end then false
          else add_effs_ok fa (e_tgt e :: fid) es'
      else add_effs_ok fa fid es'
  end.

Definition is_nil {A} (l : list A) : bool := match l with [] => true | _ => false end.

(* the variant survives `if conflicting_effects: continue` and `if len(new_action.effects) > 0` *)
Definition ce_kept (a : action) (sel : list bool) : bool :=
  add_effs_ok [] [] (a_effs (ce_variant a sel)) && negb (is_nil (a_effs (ce_variant a sel))).

Definition ce_kept_sels (a : action) : list (list bool) := filter (ce_kept a) (ce_sels a).
Definition ce_kept_variants (a : action) : list action := map (ce_variant a) (ce_kept_sels a).

(* ------------------------------------------------------------------ disjunctive-conditions splitting *)
Section Dnf.
  (* disjunct list of an effect condition: Dnf.get_dnf_expression(c).simplify(), split on a top-level Or;
     [] when it is FALSE (the effect is dropped); supplied by the real walker, validated per instance (C12 proves the
     walker) *)
  Variable cdnf : expr -> list expr.

  Definition split_effect (e : effect) : list effect :=
    if is_uncond e then [e] else map (set_cond e) (cdnf (e_cond e)).

  (* _create_new_action_with_given_precond for one disjunct [d] = the conjunct leaves of and_exp.simplify() *)
  Definition dnf_variant (a : action) (d : list expr) : action :=
    {| a_params := a_params a; a_pre := d; a_effs := flat_map split_effect (a_effs a) |}.

  (* `except UPConflictingEffectsException: return None` (a split effect whose condition simplified to TRUE is
     unconditional and may conflict with another effect) and `if len(new_action.effects) == 0: return None` *)
  Definition dnf_kept (v : action) : bool := add_effs_ok [] [] (a_effs v) && negb (is_nil (a_effs v)).

  (* one variant per disjunct of the precondition *)
  Definition dnf_variants (a : action) (pre_dnf : list (list expr)) : list action :=
    filter dnf_kept (map (dnf_variant a) pre_dnf).
End Dnf.

(* ---- goals.  fake_action.add_effect(fake_fluent, True); one achiever per disjunct of the goal's DNF *)
Definition fake_effect (fk : N) : effect :=
  {| e_fl := fk; e_args := []; e_val := EBool true; e_cond := EBool true; e_kind := KAssign; e_vars := [];
     e_isbool := true |}.

Definition fake_action (fk : N) (d : list expr) : action :=
  {| a_params := []; a_pre := d; a_effs := [fake_effect fk] |}.

(* the effect added to every "meaningful" action: Effect(FluentExp(f), FALSE(), TRUE()) *)
Definition reset_effect (fk : N) : effect :=
  {| e_fl := fk; e_args := []; e_val := EBool false; e_cond := EBool true; e_kind := KAssign; e_vars := [];
     e_isbool := true |}.

(* how one original goal is compiled: kept as an expression (its DNF, not an Or) or replaced by a fake fluent with
   one achiever per disjunct *)
Inductive cgoal :=
| CDirect (g' : expr)
| CFake (fk : N) (ds : list (list expr)).

Definition cgoal_expr (c : cgoal) : expr :=
  match c with CDirect g' => g' | CFake fk _ => EFluent fk [] end.

(* ------------------------------------------------------------------ applicability as a Boolean *)
Definition is_some {A} (o : option A) : bool := match o with Some _ => true | None => false end.

Definition applicable (P : problem) (s : state) (a : action) (args : list value) : bool :=
  is_some (spec_step false P s a args).
