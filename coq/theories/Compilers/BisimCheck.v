(* A verified decision procedure for "two problems behave identically" (C18, C19, C21; DESIGN.md 6, validated group).

   The printers and parsers of unified_planning.io are NOT modelled.  What is defined here is a checker that is run on
   the two problems the implementation actually produced (original / re-read, or reader 1 / reader 2), serialised with
   a shared numbering of objects, fluents, user types and actions (the renaming rho of the writer is applied by the
   harness, so that rho is the identity on ids):

     [bisim_check P Q MP MQ sigsP sigsQ l0P l0Q n cap]  explores the product of the two deterministic transition
     systems [spec_step false] (documented sequential semantics of Planning/Sem.v) from the two initial states and
     checks: same objects per type, same action signatures, equal initial states, and for every reachable state and
     every ground action instance: same applicability, equal successors, same goal verdict, same metric
     contribution / final metric value.

   The search ([explore]) is not trusted: it only proposes a finite set of ranked states (a certificate), which
   [cert_ok] then checks.  Proofs/BisimCheck_proofs.v proves that a passed certificate implies equal runs, equal plan
   validity and equal metric values for ALL plans over the well-typed ground instances when the certificate is closed,
   and for all plans of length <= the returned bound otherwise.

   States are finite association lists (the newest binding first); [st_of] turns one into a [state].  Nothing is
   assumed about well-typedness of the problems: a list denotes a total function (None off its keys), so two lists are
   compared on the union of their keys. *)
From Coq Require Import List ZArith NArith QArith Qcanon Bool.
Import ListNotations.
Require Import UPV.Core.Expr UPV.Core.Eval UPV.Core.Interp UPV.Planning.Problem UPV.Planning.Sem UPV.Planning.SeqValidate.

Definition fstate := list (N * list value * value).
Definition st_of (l : fstate) : state := fun f a => lookup_app f a l.
Definition inst := (N * list value)%type.

(* ------------------------------------------------------------------ finite successor *)
(* the bindings written by the fired effect instances [acts]: one per effect instance whose fluent gets a value *)
Definition upd_of (P : problem) (s : state) (acts : list aeff) : fstate :=
  flat_map (fun a => match spec_fluent P s acts (ae_key a) with
                     | CVal v => [(fst (ae_key a), snd (ae_key a), v)]
                     | _ => []
                     end) acts.

(* [spec_step false] on list states *)
Definition fstep_a (P : problem) (l : fstate) (a : action) (args : list value) : option fstate :=
  let s := st_of l in
  let I := mk_interp P s (zip_params (a_params a) args) in
  if negb (all_hold false I (a_pre a)) then None
  else match fired false I (a_effs a) with
       | None => None
       | Some acts =>
           if negb (spec_effects_ok P s acts) then None
           else let l' := upd_of P s acts ++ l in
                if invariants_ok false P (st_of l') then Some l' else None
       end.

Definition fstep (P : problem) (l : fstate) (i : inst) : option fstate :=
  match lookup_action P (fst i) with
  | None => None
  | Some a => fstep_a P l a (snd i)
  end.

(* the step relation of [run]: an unknown action id is never applicable *)
Definition step_of (P : problem) (s : state) (i : inst) : option state :=
  match lookup_action P (fst i) with
  | None => None
  | Some a => spec_step false P s a (snd i)
  end.

(* two lists denote the same function *)
Definition state_list_eqb (l1 l2 : fstate) : bool :=
  forallb (fun e => ovalue_eqb (lookup_app (fst (fst e)) (snd (fst e)) l1) (lookup_app (fst (fst e)) (snd (fst e)) l2))
          (l1 ++ l2).

(* ------------------------------------------------------------------ metrics *)
(* SeqValidate.metric does not record the direction of a final-state metric *)
Record qmetric := { qm_max : bool; qm_m : metric }.

Definition mclass (M : metric) : N :=
  match M with MNone => 0 | MCosts _ _ | MLength => 1 | MFinal _ => 2 | MOversub _ => 3 end%N.

Definition metric_kind_eqb (a b : qmetric) : bool :=
  Bool.eqb (qm_max a) (qm_max b) && (mclass (qm_m a) =? mclass (qm_m b))%N.

Definition oqc_eqb (a b : option Qc) : bool :=
  match a, b with Some x, Some y => qc_eqb x y | None, None => true | _, _ => false end.
Definition ooqc_eqb (a b : option (option Qc)) : bool :=
  match a, b with Some x, Some y => oqc_eqb x y | None, None => true | _, _ => false end.

(* contribution of one step to a cumulative metric (accumulator 0) *)
Definition step_delta (P : problem) (M : metric) (l : fstate) (i : inst) : option Qc :=
  match lookup_action P (fst i) with
  | None => None
  | Some a => step_metric false P M (st_of l) (fst i) a (snd i) (zq 0)
  end.

(* validation of a plan under the documented step: verdict + metric value *)
Definition vplan (P : problem) (M : metric) (s : state) (acc : Qc) (plan : list inst) : vresult :=
  validate_from false P M (spec_step false P) s acc plan.

(* ------------------------------------------------------------------ static comparisons *)
Definition subsetN (a b : list N) : bool := forallb (fun x => memN x b) a.
Definition seteqN (a b : list N) : bool := subsetN a b && subsetN b a.

(* the same objects in every user type (either table), compared as sets *)
Definition objs_agree (P Q : problem) : bool :=
  forallb (fun to => seteqN (snd to) (objs_of Q (fst to))) (p_objs P) &&
  forallb (fun to => seteqN (snd to) (objs_of P (fst to))) (p_objs Q).

Fixpoint listN_eqb (a b : list N) : bool :=
  match a, b with
  | [], [] => true
  | x :: a', y :: b' => (x =? y)%N && listN_eqb a' b'
  | _, _ => false
  end.

(* action signatures (action id -> parameter types).  An action of P may be absent from Q (the PDDL writer drops
   actions whose precondition is constantly false); it is then never applicable in Q, and the exploration checks that
   it is never applicable in P either. *)
Definition sigs_agree (sP sQ : list (N * list N)) : bool :=
  forallb (fun as_ => match lookupN (fst as_) sP with Some s => listN_eqb s (snd as_) | None => false end) sQ &&
  forallb (fun as_ => match lookupN (fst as_) sQ with Some s => listN_eqb s (snd as_) | None => true end) sP.

Definition all_insts (P : problem) (sigs : list (N * list N)) : list inst :=
  flat_map (fun as_ => map (fun args => (fst as_, args)) (arg_tuples P (snd as_))) sigs.

(* ------------------------------------------------------------------ certificates *)
Record node := { n_rank : nat; n_trace : list inst; n_st : fstate }.

Section Check.
  Variables P Q : problem.
  Variables MP MQ : metric.
  Variable insts : list inst.

  (* 0 = agreement; otherwise the first kind of disagreement at this state / instance *)
  Definition state_code (l : fstate) : N :=
    if negb (Bool.eqb (goals_hold false P (st_of l)) (goals_hold false Q (st_of l))) then 3
    else if negb (ooqc_eqb (final_metric false P MP (st_of l) (zq 0)) (final_metric false Q MQ (st_of l) (zq 0))) then 7
    else 0.

  Definition in_cert (V : list node) (r : nat) (l : fstate) : bool :=
    existsb (fun nd => Nat.leb (n_rank nd) r && state_list_eqb l (n_st nd)) V.

  Definition inst_code (V : list node) (r : nat) (l : fstate) (i : inst) : N :=
    match fstep P l i, fstep Q l i with
    | None, None => 0
    | Some l1, Some l2 =>
        if negb (state_list_eqb l1 l2) then 5
        else if negb (oqc_eqb (step_delta P MP l i) (step_delta Q MQ l i)) then 6
        else if negb (in_cert V (S r) l1) then 9
        else 0
    | _, _ => 4
    end%N.

  Definition node_ok (V : list node) (b : nat) (nd : node) : bool :=
    (state_code (n_st nd) =? 0)%N &&
    (if Nat.ltb (n_rank nd) b
     then forallb (fun i => (inst_code V (n_rank nd) (n_st nd) i =? 0)%N) insts
     else true).

  (* every node passes; nodes of rank < b have all their successors in the certificate, one rank higher at most *)
  Definition cert_ok (V : list node) (b : nat) (l0 : fstate) : bool :=
    in_cert V 0 l0 && forallb (node_ok V b) V.

  Definition cert_closed (V : list node) (b : nat) : bool := forallb (fun nd => Nat.ltb (n_rank nd) b) V.

  (* ---------------- the (untrusted) search that builds a certificate: breadth first over P's successors *)
  Definition seen_b (l : fstate) (V : list node) : bool := existsb (fun nd => state_list_eqb l (n_st nd)) V.

  Definition add_succs (rank : nat) (nd : node) (acc : list node * list node) : list node * list node :=
    fold_left (fun (vn : list node * list node) i =>
                 match fstep P (n_st nd) i with
                 | Some l' =>
                     if seen_b l' (fst vn) then vn
                     else let x := {| n_rank := rank; n_trace := n_trace nd ++ [i]; n_st := l' |} in
                          (x :: fst vn, x :: snd vn)
                 | None => vn
                 end) insts acc.

  Fixpoint explore (cap : nat) (fuel : nat) (rank : nat) (V front : list node) : list node * nat :=
    match fuel with
    | O => (V, rank)
    | S fuel' =>
        match front with
        | [] => (V, rank)
        | _ :: _ =>
            if Nat.ltb cap (length V) then (V, rank)
            else let vn := fold_left (fun acc nd => add_succs (S rank) nd acc) front (V, []) in
                 explore cap fuel' (S rank) (fst vn) (rev (snd vn))
        end
    end.

  (* first failing node / instance of a certificate, with the action sequence that reaches the node *)
  Definition first_bad (V : list node) (b : nat) : option (N * list inst * option inst) :=
    let bad_node nd :=
      if negb (state_code (n_st nd) =? 0)%N then Some (state_code (n_st nd), n_trace nd, None)
      else if Nat.ltb (n_rank nd) b
           then match find (fun i => negb (inst_code V (n_rank nd) (n_st nd) i =? 0)%N) insts with
                | Some i => Some (inst_code V (n_rank nd) (n_st nd) i, n_trace nd, Some i)
                | None => None
                end
           else None in
    (fix go (l : list node) := match l with
                               | [] => None
                               | nd :: l' => match bad_node nd with Some w => Some w | None => go l' end
                               end) (rev V).
End Check.

Inductive bres :=
| BClosed                       (* the explored product graph is closed: the verdict holds for all plans *)
| BBounded (n : nat)            (* the verdict holds for plans of length <= n *)
| BFail (why : N) (trace : list inst) (i : option inst).
(* why: 1 objects differ, 2 initial states differ, 3 goal verdict differs, 4 applicability differs,
        5 successors differ, 6 step cost differs, 7 final metric differs, 8 metric kind differs,
        9 certificate incomplete (search defect, not a disagreement), 10 action signatures differ *)

(* the verdict on a proposed certificate [vb] = (ranked states, bound); sound for ANY [vb] *)
Definition bisim_check_with (vb : list node * nat) (P Q : problem) (MP MQ : qmetric) (sigsP sigsQ : list (N * list N))
           (l0P l0Q : fstate) : bres :=
  if negb (objs_agree P Q) then BFail 1 [] None
  else if negb (sigs_agree sigsP sigsQ) then BFail 10 [] None
  else if negb (metric_kind_eqb MP MQ) then BFail 8 [] None
  else if negb (state_list_eqb l0P l0Q) then BFail 2 [] None
  else
    let insts := all_insts P sigsP in
    if cert_ok P Q (qm_m MP) (qm_m MQ) insts (fst vb) (snd vb) l0P
    then (if cert_closed (fst vb) (snd vb) then BClosed else BBounded (snd vb))
    else match first_bad P Q (qm_m MP) (qm_m MQ) insts (fst vb) (snd vb) with
         | Some (w, tr, i) => BFail w tr i
         | None => BFail 9 [] None
         end.

(* the search: breadth first from the initial state of P, at most [n] layers, stops expanding beyond [cap] states *)
Definition bisim_explore (P : problem) (sigsP : list (N * list N)) (l0P : fstate) (n cap : nat) : list node * nat :=
  let root := {| n_rank := 0; n_trace := []; n_st := l0P |} in
  explore P (all_insts P sigsP) cap n 0 [root] [root].

Definition bisim_check (P Q : problem) (MP MQ : qmetric) (sigsP sigsQ : list (N * list N)) (l0P l0Q : fstate)
           (n cap : nat) : bres :=
  bisim_check_with (bisim_explore P sigsP l0P n cap) P Q MP MQ sigsP sigsQ l0P l0Q.

(* a summary code for the harness: 0 closed, 1 bounded, otherwise 100 + why *)
Definition bres_code (r : bres) : N :=
  match r with BClosed => 0 | BBounded _ => 1 | BFail w _ _ => 100 + w end%N.

(* ------------------------------------------------------------------ plans *)
Fixpoint plan_eqb (a b : list inst) : bool :=
  match a, b with
  | [], [] => true
  | (x, u) :: a', (y, v) :: b' => (x =? y)%N && values_eqb u v && plan_eqb a' b'
  | _, _ => false
  end.

(* ------------------------------------------------------------------ structural comparison of metrics (C21) *)
Definition oexpr_eqb (a b : option expr) : bool :=
  match a, b with Some x, Some y => expr_eqb x y | None, None => true | _, _ => false end.

(* the cost of an action under a cumulative metric; plan length = every action costs 1 *)
Definition cost_of (M : metric) (aid : N) : option expr :=
  match M with
  | MCosts _ _ => cost_expr M aid
  | MLength => Some (EInt 1)
  | _ => None
  end.

Fixpoint gains_eqb (a b : list (expr * Qc)) : bool :=
  match a, b with
  | [], [] => true
  | (g, w) :: a', (h, v) :: b' => expr_eqb g h && qc_eqb w v && gains_eqb a' b'
  | _, _ => false
  end.

Definition final_eqb (a b : metric) : bool :=
  match a, b with
  | MFinal e, MFinal f => expr_eqb e f
  | MOversub g, MOversub h => gains_eqb g h
  | MNone, MNone => true
  | (MCosts _ _ | MLength), (MCosts _ _ | MLength) => true
  | _, _ => false
  end.

(* same direction and class, the same cost expression for every action id in [acts], the same final expression /
   goal weights *)
Definition metric_eqb (acts : list N) (a b : qmetric) : bool :=
  metric_kind_eqb a b &&
  forallb (fun aid => oexpr_eqb (cost_of (qm_m a) aid) (cost_of (qm_m b) aid)) acts &&
  final_eqb (qm_m a) (qm_m b).

(* ------------------------------------------------------------------ temporal structure (C19, C18 durative actions) *)
(* Timing: kind 0 GLOBAL_START, 1 GLOBAL_END, 2 START, 3 END; delay *)
Record timing := { tm_kind : N; tm_delay : Qc }.
Record tinterval := { ti_lo : timing; ti_hi : timing; ti_lopen : bool; ti_ropen : bool }.

Record daction := {
  da_sig : list N;                          (* parameter types; parameters are numbered by position *)
  da_dlo : expr; da_dhi : expr; da_dlopen : bool; da_dropen : bool;
  da_conds : list (tinterval * expr);
  da_effs : list (timing * effect)
}.

Record tstruct := {
  ts_actions : list (N * daction);
  ts_teffs : list (timing * effect);        (* timed initial literals / effects *)
  ts_tgoals : list (tinterval * expr)
}.

Definition timing_eqb (a b : timing) : bool := (tm_kind a =? tm_kind b)%N && qc_eqb (tm_delay a) (tm_delay b).
Definition tinterval_eqb (a b : tinterval) : bool :=
  timing_eqb (ti_lo a) (ti_lo b) && timing_eqb (ti_hi a) (ti_hi b) &&
  Bool.eqb (ti_lopen a) (ti_lopen b) && Bool.eqb (ti_ropen a) (ti_ropen b).
Definition ekind_eqb (a b : ekind) : bool :=
  match a, b with KAssign, KAssign | KInc, KInc | KDec, KDec => true | _, _ => false end.
Definition effect_eqb (a b : effect) : bool :=
  (e_fl a =? e_fl b)%N && list_expr_eqb (e_args a) (e_args b) && expr_eqb (e_val a) (e_val b) &&
  expr_eqb (e_cond a) (e_cond b) && ekind_eqb (e_kind a) (e_kind b) && vars_eqb (e_vars a) (e_vars b) &&
  Bool.eqb (e_isbool a) (e_isbool b).

Definition cond_eqb (a b : tinterval * expr) : bool := tinterval_eqb (fst a) (fst b) && expr_eqb (snd a) (snd b).
Definition teff_eqb (a b : timing * effect) : bool := timing_eqb (fst a) (fst b) && effect_eqb (snd a) (snd b).

(* lists compared as sets *)
Definition incl_b {A} (eqb : A -> A -> bool) (a b : list A) : bool := forallb (fun x => existsb (eqb x) b) a.
Definition seteq_b {A} (eqb : A -> A -> bool) (a b : list A) : bool := incl_b eqb a b && incl_b eqb b a.

Definition daction_eqb (a b : daction) : bool :=
  listN_eqb (da_sig a) (da_sig b) && expr_eqb (da_dlo a) (da_dlo b) && expr_eqb (da_dhi a) (da_dhi b) &&
  Bool.eqb (da_dlopen a) (da_dlopen b) && Bool.eqb (da_dropen a) (da_dropen b) &&
  seteq_b cond_eqb (da_conds a) (da_conds b) && seteq_b teff_eqb (da_effs a) (da_effs b).

Definition dactions_sub (a b : list (N * daction)) : bool :=
  forallb (fun ia => match lookupN (fst ia) b with Some y => daction_eqb (snd ia) y | None => false end) a.

Definition temporal_structure_eqb (a b : tstruct) : bool :=
  dactions_sub (ts_actions a) (ts_actions b) && dactions_sub (ts_actions b) (ts_actions a) &&
  seteq_b teff_eqb (ts_teffs a) (ts_teffs b) && seteq_b cond_eqb (ts_tgoals a) (ts_tgoals b).
