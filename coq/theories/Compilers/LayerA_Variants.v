(* C06 / C07, Layer A — problem-level models of ConditionalEffectsRemover and DisjunctiveConditionsRemover on top of the
   action splitting of Compilers/Variants.v (C37).  DEFINITIONS ONLY (proofs: Proofs/LayerA_Variants_proofs.v).

   Mirrors (unified_planning/engines/compilers/)
     conditional_effects_remover.py   ConditionalEffectsRemover._compile: unconditional actions are cloned under their
                                      own name; every conditional action is replaced by the kept variants of
                                      _create_unconditional_actions (Variants.ce_kept_sels) whose preconditions passed
                                      check_and_simplify_preconditions, each under a fresh name
     disjunctive_conditions_remover.py DisjunctiveConditionsRemover._compile: every action is replaced by one variant per
                                      disjunct of the DNF of its preconditions (Variants.dnf_variants); goals: see below
     utils.py                         check_and_simplify_preconditions, get_fresh_name
   External behaviour (Section variables): the Simplifier inside check_and_simplify_preconditions ([simp_pre]), the
   fresh names ([nm]), the DNF walker ([cdnf], [pre_dnf]; C12). *)
From Coq Require Import List ZArith NArith QArith Qcanon Bool.
Import ListNotations.
Require Import UPV.Core.Expr UPV.Core.Eval UPV.Core.Interp UPV.Planning.Problem UPV.Planning.Sem.
Require Import UPV.Compilers.Variants UPV.Compilers.LayerA_Defs.

Definition set_pre (a : action) (pre : list expr) : action :=
  {| a_params := a_params a; a_pre := pre; a_effs := a_effs a |}.

Fixpoint number_from {A} (k : nat) (l : list A) : list (nat * A) :=
  match l with [] => [] | x :: l' => (k, x) :: number_from (S k) l' end.

Section CER.
  (* check_and_simplify_preconditions: None = the conjunction simplified to FALSE (variant left out),
     Some l = the new precondition list *)
  Variable simp_pre : list expr -> option (list expr).
  (* get_fresh_name: the name given to the k-th kept variant of the action named i *)
  Variable nm : N -> nat -> N.

  Definition cer_variants (a : action) : list action :=
    flat_map (fun sel => let v := ce_variant a sel in
                         match simp_pre (a_pre v) with Some pre' => [set_pre v pre'] | None => [] end)
             (ce_kept_sels a).

  (* action.is_conditional() *)
  Definition is_cond_action (a : action) : bool := negb (is_nil (cond_effs (a_effs a))).

  Definition cer_table (P : problem) : vtable :=
    flat_map (fun ia => let i := fst ia in let a := snd ia in
                        if is_cond_action a
                        then map (fun kv => (nm i (fst kv), i, snd kv)) (number_from 0 (cer_variants a))
                        else [(i, i, a)])
             (p_actions P).

  Definition cer_compile (P : problem) : problem :=
    {| p_objs := p_objs P; p_ifun := p_ifun P; p_fluents := p_fluents P;
       p_actions := vt_actions (cer_table P); p_goals := p_goals P; p_invs := p_invs P |}.
End CER.

(* check_and_simplify_preconditions keeps the meaning of the conjunction *)
Definition simp_pre_ok (simp_pre : list expr -> option (list expr)) : Prop :=
  forall l I, match simp_pre l with
              | Some l' => all_hold false I l' = all_hold false I l
              | None => all_hold false I l = false
              end.

Section DCR.
  Variable cdnf : expr -> list expr.             (* disjuncts of an effect condition (Dnf walker + simplify) *)
  Variable pre_dnf : action -> list (list expr).  (* disjuncts of the conjunction of the preconditions, each a list of literals *)
  Variable nm : N -> nat -> N.

  Definition dcr_table (P : problem) : vtable :=
    flat_map (fun ia => let i := fst ia in let a := snd ia in
                        map (fun kv => (nm i (fst kv), i, snd kv)) (number_from 0 (dnf_variants cdnf a (pre_dnf a))))
             (p_actions P).

  (* the goals are kept when their DNF is a single conjunction (no auxiliary goal fluent / action is created);
     [goals'] = the conjuncts of that DNF *)
  Definition dcr_compile (P : problem) (goals' : list expr) : problem :=
    {| p_objs := p_objs P; p_ifun := p_ifun P; p_fluents := p_fluents P;
       p_actions := vt_actions (dcr_table P); p_goals := goals'; p_invs := p_invs P |}.
End DCR.
