(* C06 / C07, Layer A — Grounder.  DEFINITIONS ONLY (proofs: Proofs/LayerA_Ground_proofs.v).

   Mirrors (unified_planning/engines/compilers/)
     grounder.py   Grounder._compile: for every action and every parameter tuple of GrounderHelper.get_possible_parameters
                   (product of the objects / values of the parameter types, pruned by _purge_items_list) the ground action
                   of GrounderHelper.ground_action, unless that is None; trace_back_map / lift_action_instance map a
                   ground action back to (original action, parameters)
     utils.py      create_action_with_given_subs (InstantaneousAction branch, no simulated effect),
                   create_effect_with_given_subs, check_and_simplify_preconditions
     model/effect.py  Effect.__init__ (forall variables that are no longer free are dropped: Ground.keep_vars),
                   check_conflicting_effects through _add_effect_instance (Variants.add_effs_ok; a conflict = no action)
   NOTE: an instantaneous ground action WITHOUT effects is kept by the code (only a FALSE precondition or conflicting
   effects make ground_action return None), although the class documentation says it is discarded.
   Parameter substitution is Planning/Ground.v's [psubst] (= Substituter.substitute on manager-built expressions:
   Proofs/Ground_subst.v psubst_is_substitute, C01/C13).
   External behaviour (Section variables): the grounder's Simplifier(env, problem) [smp] (it folds static fluents to
   their initial values, so it is exact only on states that agree with the initial state on static fluents), the
   enumerated parameter tuples [tuples] (the action record has no parameter types; includes the static-fluent pruning),
   the fresh names [nm]. *)
From Coq Require Import List ZArith NArith QArith Qcanon Bool.
Import ListNotations.
Require Import UPV.Core.Expr UPV.Core.Eval UPV.Core.Interp UPV.Planning.Problem UPV.Planning.Sem UPV.Planning.Ground.
Require Import UPV.Compilers.Variants UPV.Compilers.LayerA_Defs UPV.Compilers.LayerA_Variants.

(* ground action id, (original action id, parameters), ground action *)
Definition gtable := list (N * (N * list value) * action).

Definition gt_actions (t : gtable) : list (N * action) := map (fun x => (fst (fst x), snd x)) t.

(* lift_action_instance *)
Definition gt_back (t : gtable) (id' : N) : N * list value :=
  match find (fun x => (fst (fst x) =? id')%N) t with Some x => snd (fst x) | None => (id', []) end.

Definition gt_map_back (t : gtable) (pi' : list (N * list value)) : list (N * list value) :=
  map (fun st => gt_back t (fst st)) pi'.

Section GroundCompile.
  Variable smp : expr -> expr.

  (* create_effect_with_given_subs *)
  Definition g_effect (sg : list (N * value)) (e : effect) : option effect :=
    let args := map (fun x => smp (psubst sg x)) (e_args e) in
    let v := smp (psubst sg (e_val e)) in
    let c := smp (psubst sg (e_cond e)) in
    if is_false c then None
    else Some {| e_fl := e_fl e; e_args := args; e_val := v; e_cond := c; e_kind := e_kind e;
                 e_vars := keep_vars (effect_free_vars args v c) [] (e_vars e); e_isbool := e_isbool e |}.

  Definition g_effects (sg : list (N * value)) (effs : list effect) : list effect :=
    flat_map (fun e => match g_effect sg e with Some x => [x] | None => [] end) effs.

  (* check_and_simplify_preconditions *)
  Definition g_pre (sg : list (N * value)) (pre : list expr) : option (list expr) :=
    match pre with
    | [] => Some []
    | _ => match smp (mkAnd (map (psubst sg) pre)) with
           | EBool false => None
           | EBool true => Some []
           | EAnd l => Some l
           | ps => Some [ps]
           end
    end.

  (* create_action_with_given_subs; None = no ground action *)
  Definition g_action (a : action) (args : list value) : option action :=
    let sg := zip_params (a_params a) args in
    let effs := g_effects sg (a_effs a) in
    if add_effs_ok [] [] effs
    then match g_pre sg (a_pre a) with
         | Some pre => Some {| a_params := []; a_pre := pre; a_effs := effs |}
         | None => None
         end
    else None.

  (* get_possible_parameters(action): the parameter tuples the grounder enumerates for the action named i *)
  Variable tuples : N -> list (list value).
  (* the name of the k-th tuple's ground action of the action named i *)
  Variable nm : N -> nat -> N.

  Definition ground_table (P : problem) : gtable :=
    flat_map (fun ia =>
                flat_map (fun kt => match g_action (snd ia) (snd kt) with
                                    | Some g => [(nm (fst ia) (fst kt), (fst ia, snd kt), g)]
                                    | None => []
                                    end)
                         (number_from 0 (tuples (fst ia))))
             (p_actions P).

  Definition ground_compile (P : problem) : problem :=
    {| p_objs := p_objs P; p_ifun := p_ifun P; p_fluents := p_fluents P;
       p_actions := gt_actions (ground_table P); p_goals := p_goals P; p_invs := p_invs P |}.

  (* ---- hypotheses of the plan-level theorems *)
  (* no forall variable of an effect disappears when the ground effect is rebuilt (otherwise an increase is applied once
     instead of once per object: finding C01-forall-variable-vanishes) *)
  Definition vars_kept (a : action) (args : list value) : Prop :=
    forall e ge, In e (a_effs a) -> g_effect (zip_params (a_params a) args) e = Some ge -> e_vars ge = e_vars e.

  (* effect targets are defined (an effect whose condition became FALSE is dropped; the original step still
     evaluates its target) *)
  Definition g_targets_total (P : problem) (a : action) (args : list value) : Prop :=
    forall s e J, In e (a_effs a) ->
      In J (instances (mk_interp P s (zip_params (a_params a) args)) (e_vars e)) ->
      evals_l false J (e_args e) <> None.

  Definition instances_ok (P : problem) : Prop :=
    forall i a args, In (i, a) (p_actions P) -> In args (tuples i) -> vars_kept a args /\ g_targets_total P a args.

  (* every step of the plan uses a parameter tuple the grounder enumerates (type-correct, not pruned) *)
  Definition plan_in_tuples (pi : list (N * list value)) : Prop :=
    forall i args, In (i, args) pi -> In args (tuples i).
End GroundCompile.

(* the simplifier is exact on a set of states G (for the grounder: the states that give the static fluents their
   initial values), under every instance of forall / quantifier variables *)
Definition smp_exact_on (P : problem) (G : state -> Prop) (smp : expr -> expr) : Prop :=
  forall e s vs J, G s -> In J (instances (mk_interp P s []) vs) -> eval false (smp e) J = eval false e J.
